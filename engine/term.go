package main

// Hash-consed SMT term DAG with constant folding. Sorts: Bool, BV(n), FP64,
// Real (relaxed float mode), Int, String.

import (
	"fmt"
	"math"
	"sort"
	"strconv"
	"strings"
)

type SortKind int

const (
	SBool SortKind = iota
	SBV
	SFP
	SReal
	SInt
	SString
)

type Sort struct {
	K SortKind
	W int // bit-width for SBV
}

var (
	BoolSort   = Sort{SBool, 0}
	FPSort     = Sort{SFP, 0}
	RealSort   = Sort{SReal, 0}
	IntSort    = Sort{SInt, 0}
	StringSort = Sort{SString, 0}
)

func BV(w int) Sort { return Sort{SBV, w} }

func (s Sort) SMT() string {
	switch s.K {
	case SBool:
		return "Bool"
	case SBV:
		return fmt.Sprintf("(_ BitVec %d)", s.W)
	case SFP:
		return "(_ FloatingPoint 11 53)"
	case SReal:
		return "Real"
	case SInt:
		return "Int"
	case SString:
		return "String"
	}
	return "?"
}

type Term struct {
	ID   int
	Op   string // "bvconst","boolconst","fpconst","strconst","intconst","realconst","var", else SMT operator
	Args []*Term
	Sort Sort
	U    uint64  // bv const value / bool (0/1) / int const (as int64 bits)
	F    float64 // fp const
	S    string  // var name / string const / indexed-op parameters / real const text
}

var (
	termTable = map[string]*Term{}
	termList  []*Term
)

func mk(op string, sort Sort, u uint64, f float64, s string, args ...*Term) *Term {
	var sb strings.Builder
	sb.WriteString(op)
	sb.WriteByte('|')
	sb.WriteString(strconv.Itoa(int(sort.K)))
	sb.WriteByte(':')
	sb.WriteString(strconv.Itoa(sort.W))
	sb.WriteByte('|')
	sb.WriteString(strconv.FormatUint(u, 16))
	sb.WriteByte('|')
	if op == "fpconst" {
		sb.WriteString(strconv.FormatUint(math.Float64bits(f), 16))
	}
	sb.WriteByte('|')
	sb.WriteString(s)
	for _, a := range args {
		sb.WriteByte(',')
		sb.WriteString(strconv.Itoa(a.ID))
	}
	k := sb.String()
	if t, ok := termTable[k]; ok {
		return t
	}
	t := &Term{ID: len(termList), Op: op, Args: args, Sort: sort, U: u, F: f, S: s}
	termTable[k] = t
	termList = append(termList, t)
	return t
}

func mask(w int) uint64 {
	if w >= 64 {
		return ^uint64(0)
	}
	return (uint64(1) << uint(w)) - 1
}

// mathInts: Go integers are modelled as mathematical integers (no wrap-around; used together with
// relaxed-real floats). The BV constructors below then build Int terms.
var mathInts bool

func BVConst(v uint64, w int) *Term {
	if mathInts {
		t := mk("bvconst", BV(w), v&mask(w), 0, "")
		return IntConst(t.SVal())
	}
	return mk("bvconst", BV(w), v&mask(w), 0, "")
}
func BoolConst(b bool) *Term {
	if b {
		return mk("boolconst", BoolSort, 1, 0, "")
	}
	return mk("boolconst", BoolSort, 0, 0, "")
}
func FPConst(f float64) *Term  { return mk("fpconst", FPSort, 0, f, "") }
func StrConst(s string) *Term  { return mk("strconst", StringSort, 0, 0, s) }
func IntConst(v int64) *Term   { return mk("intconst", IntSort, uint64(v), 0, "") }
func RealConst(s string) *Term { return mk("realconst", RealSort, 0, 0, s) } // s is SMT text e.g. "(/ 1.0 3.0)" or "0.5"
func Var(name string, s Sort) *Term { return mk("var", s, 0, 0, name) }

var True, False *Term

func init() {
	True = BoolConst(true)
	False = BoolConst(false)
}

func (t *Term) IsConst() bool {
	switch t.Op {
	case "bvconst", "boolconst", "fpconst", "strconst", "intconst", "realconst":
		return true
	}
	return false
}
func (t *Term) IsTrue() bool  { return t == True }
func (t *Term) IsFalse() bool { return t == False }

// signed value of a bv const
func (t *Term) SVal() int64 {
	if t.Sort.K == SInt {
		return int64(t.U)
	}
	w := t.Sort.W
	v := t.U
	if w < 64 && v&(uint64(1)<<uint(w-1)) != 0 {
		v |= ^mask(w)
	}
	return int64(v)
}

// ---------- boolean ----------

func Not(a *Term) *Term {
	if a.IsConst() {
		return BoolConst(a.U == 0)
	}
	if a.Op == "not" {
		return a.Args[0]
	}
	return mk("not", BoolSort, 0, 0, "", a)
}

func And(xs ...*Term) *Term {
	var out []*Term
	seen := map[int]bool{}
	for _, x := range xs {
		if x.IsFalse() {
			return False
		}
		if x.IsTrue() {
			continue
		}
		if x.Op == "and" {
			for _, y := range x.Args {
				if !seen[y.ID] {
					seen[y.ID] = true
					out = append(out, y)
				}
			}
			continue
		}
		if !seen[x.ID] {
			seen[x.ID] = true
			out = append(out, x)
		}
	}
	for _, x := range out {
		if x.Op == "not" && seen[x.Args[0].ID] {
			return False
		}
	}
	if len(out) == 0 {
		return True
	}
	if len(out) == 1 {
		return out[0]
	}
	return mk("and", BoolSort, 0, 0, "", out...)
}

func Or(xs ...*Term) *Term {
	var out []*Term
	seen := map[int]bool{}
	for _, x := range xs {
		if x.IsTrue() {
			return True
		}
		if x.IsFalse() {
			continue
		}
		if x.Op == "or" {
			for _, y := range x.Args {
				if !seen[y.ID] {
					seen[y.ID] = true
					out = append(out, y)
				}
			}
			continue
		}
		if !seen[x.ID] {
			seen[x.ID] = true
			out = append(out, x)
		}
	}
	for _, x := range out {
		if x.Op == "not" && seen[x.Args[0].ID] {
			return True
		}
	}
	if len(out) == 0 {
		return False
	}
	if len(out) == 1 {
		return out[0]
	}
	return mk("or", BoolSort, 0, 0, "", out...)
}

func Implies(a, b *Term) *Term { return Or(Not(a), b) }

func Ite(c, a, b *Term) *Term {
	if c.IsTrue() {
		return a
	}
	if c.IsFalse() {
		return b
	}
	if a == b {
		return a
	}
	if a.Sort != b.Sort {
		panic(fmt.Sprintf("ite sort mismatch %v %v", a.Sort, b.Sort))
	}
	if a.Sort.K == SBool {
		if a.IsTrue() && b.IsFalse() {
			return c
		}
		if a.IsFalse() && b.IsTrue() {
			return Not(c)
		}
		if a.IsTrue() {
			return Or(c, b)
		}
		if a.IsFalse() {
			return And(Not(c), b)
		}
		if b.IsTrue() {
			return Or(Not(c), a)
		}
		if b.IsFalse() {
			return And(c, a)
		}
	}
	if c.Op == "not" {
		return Ite(c.Args[0], b, a)
	}
	return mk("ite", a.Sort, 0, 0, "", c, a, b)
}

func Eq(a, b *Term) *Term {
	if a == b {
		if a.Sort.K == SFP {
			// structural equality; for fp "=" is bitwise-ish (NaN = NaN true in SMT)
		}
		return True
	}
	if a.Sort != b.Sort {
		panic(fmt.Sprintf("eq sort mismatch %v %v (%s, %s)", a.Sort, b.Sort, a.Op, b.Op))
	}
	if a.IsConst() && b.IsConst() {
		switch a.Sort.K {
		case SBV, SBool, SInt:
			return BoolConst(a.U == b.U)
		case SString:
			return BoolConst(a.S == b.S)
		case SFP:
			return BoolConst(math.Float64bits(a.F) == math.Float64bits(b.F))
		}
	}
	if a.Sort.K == SBool {
		if a.IsTrue() {
			return b
		}
		if b.IsTrue() {
			return a
		}
		if a.IsFalse() {
			return Not(b)
		}
		if b.IsFalse() {
			return Not(a)
		}
	}
	// ite(c, k1, k2) == k  with constants
	if b.IsConst() && a.Op == "ite" && a.Args[1].IsConst() && a.Args[2].IsConst() {
		return Ite(a.Args[0], Eq(a.Args[1], b), Eq(a.Args[2], b))
	}
	if a.IsConst() && b.Op == "ite" && b.Args[1].IsConst() && b.Args[2].IsConst() {
		return Ite(b.Args[0], Eq(b.Args[1], a), Eq(b.Args[2], a))
	}
	if a.ID > b.ID {
		a, b = b, a
	}
	return mk("=", BoolSort, 0, 0, "", a, b)
}

// ---------- bit-vectors ----------

func bvFold(op string, a, b *Term) (*Term, bool) {
	if !a.IsConst() || !b.IsConst() {
		return nil, false
	}
	w := a.Sort.W
	x, y := a.U, b.U
	sx, sy := a.SVal(), b.SVal()
	switch op {
	case "bvadd":
		return BVConst(x+y, w), true
	case "bvsub":
		return BVConst(x-y, w), true
	case "bvmul":
		return BVConst(x*y, w), true
	case "bvudiv":
		if y == 0 {
			return BVConst(mask(w), w), true
		}
		return BVConst(x/y, w), true
	case "bvurem":
		if y == 0 {
			return BVConst(x, w), true
		}
		return BVConst(x%y, w), true
	case "bvsdiv":
		if sy == 0 {
			if sx >= 0 {
				return BVConst(mask(w), w), true
			}
			return BVConst(1, w), true
		}
		if sy == -1 {
			return BVConst(uint64(-sx), w), true
		}
		return BVConst(uint64(sx/sy), w), true
	case "bvsrem":
		if sy == 0 {
			return BVConst(x, w), true
		}
		if sy == -1 {
			return BVConst(0, w), true
		}
		return BVConst(uint64(sx%sy), w), true
	case "bvand":
		return BVConst(x&y, w), true
	case "bvor":
		return BVConst(x|y, w), true
	case "bvxor":
		return BVConst(x^y, w), true
	case "bvshl":
		if y >= uint64(w) {
			return BVConst(0, w), true
		}
		return BVConst(x<<y, w), true
	case "bvlshr":
		if y >= uint64(w) {
			return BVConst(0, w), true
		}
		return BVConst(x>>y, w), true
	case "bvashr":
		if y >= uint64(w) {
			if sx < 0 {
				return BVConst(mask(w), w), true
			}
			return BVConst(0, w), true
		}
		return BVConst(uint64(sx>>y), w), true
	}
	return nil, false
}

func BVBin(op string, a, b *Term) *Term {
	if a.Sort.K == SInt && b.Sort.K == SInt {
		return intBin(op, a, b)
	}
	if a.Sort != b.Sort || a.Sort.K != SBV {
		panic(fmt.Sprintf("bvbin %s sort mismatch %v %v", op, a.Sort, b.Sort))
	}
	if t, ok := bvFold(op, a, b); ok {
		return t
	}
	w := a.Sort.W
	isZero := func(t *Term) bool { return t.IsConst() && t.U == 0 }
	isOne := func(t *Term) bool { return t.IsConst() && t.U == 1 }
	switch op {
	case "bvadd":
		if isZero(a) {
			return b
		}
		if isZero(b) {
			return a
		}
		// (x + c1) + c2
		if b.IsConst() && a.Op == "bvadd" && a.Args[1].IsConst() {
			return BVBin("bvadd", a.Args[0], BVConst(a.Args[1].U+b.U, w))
		}
		if a.IsConst() {
			a, b = b, a
		}
	case "bvsub":
		if isZero(b) {
			return a
		}
		if a == b {
			return BVConst(0, w)
		}
		if b.IsConst() {
			return BVBin("bvadd", a, BVConst(-b.U, w))
		}
	case "bvmul":
		if isZero(a) || isZero(b) {
			return BVConst(0, w)
		}
		if isOne(a) {
			return b
		}
		if isOne(b) {
			return a
		}
		if a.IsConst() {
			a, b = b, a
		}
	case "bvand":
		if isZero(a) || isZero(b) {
			return BVConst(0, w)
		}
		if a == b {
			return a
		}
	case "bvor", "bvxor":
		if isZero(a) {
			return b
		}
		if isZero(b) {
			return a
		}
	case "bvshl", "bvlshr", "bvashr":
		if isZero(b) {
			return a
		}
	case "bvudiv", "bvsdiv":
		if isOne(b) {
			return a
		}
	}
	return mk(op, a.Sort, 0, 0, "", a, b)
}

func BVNeg(a *Term) *Term {
	if a.Sort.K == SInt {
		if a.IsConst() {
			return IntConst(-int64(a.U))
		}
		return App("-", IntSort, a)
	}
	if a.IsConst() {
		return BVConst(-a.U, a.Sort.W)
	}
	return mk("bvneg", a.Sort, 0, 0, "", a)
}
func BVNot(a *Term) *Term {
	if a.Sort.K == SInt {
		return intBin("bvsub", IntConst(-1), a)
	}
	if a.IsConst() {
		return BVConst(^a.U, a.Sort.W)
	}
	return mk("bvnot", a.Sort, 0, 0, "", a)
}

func BVCmp(op string, a, b *Term) *Term {
	if a.Sort.K == SInt && b.Sort.K == SInt {
		if a.IsConst() && b.IsConst() {
			if op == "bvult" || op == "bvslt" {
				return BoolConst(int64(a.U) < int64(b.U))
			}
			return BoolConst(int64(a.U) <= int64(b.U))
		}
		if a == b {
			return BoolConst(op == "bvule" || op == "bvsle")
		}
		if op == "bvult" || op == "bvslt" {
			return App("<", BoolSort, a, b)
		}
		return App("<=", BoolSort, a, b)
	}
	if a.Sort != b.Sort || a.Sort.K != SBV {
		panic(fmt.Sprintf("bvcmp %s sort mismatch %v %v", op, a.Sort, b.Sort))
	}
	if a.IsConst() && b.IsConst() {
		switch op {
		case "bvult":
			return BoolConst(a.U < b.U)
		case "bvule":
			return BoolConst(a.U <= b.U)
		case "bvslt":
			return BoolConst(a.SVal() < b.SVal())
		case "bvsle":
			return BoolConst(a.SVal() <= b.SVal())
		}
	}
	if a == b {
		return BoolConst(op == "bvule" || op == "bvsle")
	}
	// a string length (0 <= len < 2^63) against a constant: compare in the integer domain (string solvers handle
	// str.len arithmetic natively; the int2bv round trip makes them give up)
	if (op == "bvslt" || op == "bvsle") && a.Sort.W == 64 {
		isLen := func(t *Term) bool { return t.Op == "int2bv" && t.Args[0].Op == "str.len" }
		iop := "<="
		if op == "bvslt" {
			iop = "<"
		}
		if isLen(a) && b.IsConst() {
			return App(iop, BoolSort, a.Args[0], IntConst(b.SVal()))
		}
		if a.IsConst() && isLen(b) {
			return App(iop, BoolSort, IntConst(a.SVal()), b.Args[0])
		}
	}
	// comparisons of ite-of-constants against constants fold through
	if b.IsConst() && a.Op == "ite" && a.Args[1].IsConst() && a.Args[2].IsConst() {
		return Ite(a.Args[0], BVCmp(op, a.Args[1], b), BVCmp(op, a.Args[2], b))
	}
	if a.IsConst() && b.Op == "ite" && b.Args[1].IsConst() && b.Args[2].IsConst() {
		return Ite(b.Args[0], BVCmp(op, a, b.Args[1]), BVCmp(op, a, b.Args[2]))
	}
	return mk(op, BoolSort, 0, 0, "", a, b)
}

func Extract(hi, lo int, a *Term) *Term {
	if a.Sort.K == SInt {
		return a // math-int mode: conversions between integer types are value-preserving (no overflow assumed)
	}
	w := hi - lo + 1
	if lo == 0 && w == a.Sort.W {
		return a
	}
	if a.IsConst() {
		return BVConst(a.U>>uint(lo), w)
	}
	return mk("extract", BV(w), 0, 0, fmt.Sprintf("%d %d", hi, lo), a)
}
func ZeroExt(a *Term, to int) *Term {
	if a.Sort.K == SInt {
		return a
	}
	if to == a.Sort.W {
		return a
	}
	if a.IsConst() {
		return BVConst(a.U, to)
	}
	return mk("zero_extend", BV(to), 0, 0, strconv.Itoa(to-a.Sort.W), a)
}
func SignExt(a *Term, to int) *Term {
	if a.Sort.K == SInt {
		return a
	}
	if to == a.Sort.W {
		return a
	}
	if a.IsConst() {
		return BVConst(uint64(a.SVal()), to)
	}
	return mk("sign_extend", BV(to), 0, 0, strconv.Itoa(to-a.Sort.W), a)
}

// ---------- floating point (exact) ----------

func FPBin(op string, a, b *Term) *Term { // fp.add fp.sub fp.mul fp.div (RNE)
	if a.IsConst() && b.IsConst() {
		switch op {
		case "fp.add":
			return FPConst(a.F + b.F)
		case "fp.sub":
			return FPConst(a.F - b.F)
		case "fp.mul":
			return FPConst(a.F * b.F)
		case "fp.div":
			return FPConst(a.F / b.F)
		}
	}
	return mk(op, FPSort, 0, 0, "RNE", a, b)
}
func FPNeg(a *Term) *Term {
	if a.IsConst() {
		return FPConst(-a.F)
	}
	return mk("fp.neg", FPSort, 0, 0, "", a)
}
func FPAbs(a *Term) *Term {
	if a.IsConst() {
		return FPConst(math.Abs(a.F))
	}
	return mk("fp.abs", FPSort, 0, 0, "", a)
}
func FPCmp(op string, a, b *Term) *Term { // fp.lt fp.leq fp.gt fp.geq fp.eq
	if a.IsConst() && b.IsConst() {
		switch op {
		case "fp.lt":
			return BoolConst(a.F < b.F)
		case "fp.leq":
			return BoolConst(a.F <= b.F)
		case "fp.gt":
			return BoolConst(a.F > b.F)
		case "fp.geq":
			return BoolConst(a.F >= b.F)
		case "fp.eq":
			return BoolConst(a.F == b.F)
		}
	}
	return mk(op, BoolSort, 0, 0, "", a, b)
}
func FPIsNaN(a *Term) *Term {
	if a.IsConst() {
		return BoolConst(math.IsNaN(a.F))
	}
	return mk("fp.isNaN", BoolSort, 0, 0, "", a)
}
func FPIsInf(a *Term) *Term {
	if a.IsConst() {
		return BoolConst(math.IsInf(a.F, 0))
	}
	return mk("fp.isInfinite", BoolSort, 0, 0, "", a)
}

// rounding: mode in RTP (ceil) RTN (floor) RTZ (trunc) RNA (round half away) RNE
func FPRound(mode string, a *Term) *Term {
	if a.IsConst() {
		switch mode {
		case "RTP":
			return FPConst(math.Ceil(a.F))
		case "RTN":
			return FPConst(math.Floor(a.F))
		case "RTZ":
			return FPConst(math.Trunc(a.F))
		case "RNA":
			return FPConst(math.Round(a.F))
		case "RNE":
			return FPConst(math.RoundToEven(a.F))
		}
	}
	return mk("fp.roundToIntegral", FPSort, 0, 0, mode, a)
}
func FPFromSBV(a *Term) *Term {
	if a.IsConst() {
		return FPConst(float64(a.SVal()))
	}
	return mk("to_fp_s", FPSort, 0, 0, "", a)
}
func FPFromUBV(a *Term) *Term {
	if a.IsConst() {
		return FPConst(float64(a.U))
	}
	return mk("to_fp_u", FPSort, 0, 0, "", a)
}
func FPToSBV(a *Term, w int) *Term {
	if a.IsConst() && !math.IsNaN(a.F) && math.Abs(a.F) < 9e18 {
		return BVConst(uint64(int64(a.F)), w)
	}
	return mk("fp.to_sbv", BV(w), 0, 0, strconv.Itoa(w), a)
}
func FPToUBV(a *Term, w int) *Term {
	if a.IsConst() && !math.IsNaN(a.F) && a.F >= 0 && a.F < 1.8e19 {
		return BVConst(uint64(a.F), w)
	}
	return mk("fp.to_ubv", BV(w), 0, 0, strconv.Itoa(w), a)
}

// ---------- generic application (strings, ints, reals, UFs) ----------

func App(op string, s Sort, args ...*Term) *Term { return mk(op, s, 0, 0, "", args...) }

// UF application: name recorded in S, op "uf"
func UF(name string, s Sort, args ...*Term) *Term { return mk("uf", s, 0, 0, name, args...) }

// ---------- printing ----------

func smtString(s string) string {
	var sb strings.Builder
	sb.WriteByte('"')
	for _, r := range s {
		switch {
		case r == '"':
			sb.WriteString(`""`)
		case r >= 32 && r < 127 && r != '\\':
			sb.WriteRune(r)
		default:
			fmt.Fprintf(&sb, "\\u{%x}", r)
		}
	}
	sb.WriteByte('"')
	return sb.String()
}

func smtName(n string) string { return "|" + strings.ReplaceAll(n, "|", "_") + "|" }

func (t *Term) ref() string {
	switch t.Op {
	case "bvconst":
		return fmt.Sprintf("(_ bv%d %d)", t.U, t.Sort.W)
	case "boolconst":
		if t.U == 1 {
			return "true"
		}
		return "false"
	case "fpconst":
		b := math.Float64bits(t.F)
		return fmt.Sprintf("(fp #b%01b #b%011b #x%013x)", b>>63, (b>>52)&0x7ff, b&((1<<52)-1))
	case "strconst":
		return smtString(t.S)
	case "intconst":
		v := int64(t.U)
		if v < 0 {
			return fmt.Sprintf("(- %d)", -v)
		}
		return strconv.FormatInt(v, 10)
	case "realconst":
		return t.S
	case "var":
		return smtName(t.S)
	}
	return fmt.Sprintf("t%d", t.ID)
}

// body renders the defining expression of a non-leaf term, referring to args by ref().
func (t *Term) body() string {
	var sb strings.Builder
	args := func() {
		for _, a := range t.Args {
			sb.WriteByte(' ')
			sb.WriteString(a.ref())
		}
		sb.WriteByte(')')
	}
	switch t.Op {
	case "extract":
		sb.WriteString("((_ extract " + t.S + ")")
		args()
	case "zero_extend", "sign_extend":
		sb.WriteString("((_ " + t.Op + " " + t.S + ")")
		args()
	case "fp.add", "fp.sub", "fp.mul", "fp.div":
		sb.WriteString("(" + t.Op + " " + t.S)
		args()
	case "fp.roundToIntegral":
		sb.WriteString("(fp.roundToIntegral " + t.S)
		args()
	case "to_fp_s":
		sb.WriteString("((_ to_fp 11 53) RNE")
		args()
	case "to_fp_u":
		sb.WriteString("((_ to_fp_unsigned 11 53) RNE")
		args()
	case "fp.to_sbv":
		sb.WriteString("((_ fp.to_sbv " + t.S + ") RTZ")
		args()
	case "fp.to_ubv":
		sb.WriteString("((_ fp.to_ubv " + t.S + ") RTZ")
		args()
	case "int2bv":
		sb.WriteString("((_ int2bv " + strconv.Itoa(t.Sort.W) + ")")
		args()
	case "raw":
		return t.S
	case "keep":
		return "(= " + t.Args[0].ref() + " " + t.Args[0].ref() + ")"
	case "uf":
		if len(t.Args) == 0 {
			return smtName(t.S)
		}
		sb.WriteString("(" + smtName(t.S))
		args()
	default:
		sb.WriteString("(" + t.Op)
		args()
	}
	return sb.String()
}

// Collect returns the sub-DAG reachable from roots in topological order (children first).
func Collect(roots []*Term) []*Term {
	seen := map[int]bool{}
	var out []*Term
	var stack []*Term
	type fr struct {
		t *Term
		i int
	}
	for _, r := range roots {
		if seen[r.ID] {
			continue
		}
		st := []fr{{r, 0}}
		seen[r.ID] = true
		for len(st) > 0 {
			top := &st[len(st)-1]
			if top.i < len(top.t.Args) {
				c := top.t.Args[top.i]
				top.i++
				if !seen[c.ID] {
					seen[c.ID] = true
					st = append(st, fr{c, 0})
				}
				continue
			}
			out = append(out, top.t)
			st = st[:len(st)-1]
		}
	}
	_ = stack
	return out
}

// ufDecls: declarations of uninterpreted functions in the DAG
func declsFor(nodes []*Term) []string {
	var out []string
	seen := map[string]bool{}
	for _, t := range nodes {
		switch t.Op {
		case "var":
			if !seen["v"+t.S] {
				seen["v"+t.S] = true
				out = append(out, fmt.Sprintf("(declare-fun %s () %s)", smtName(t.S), t.Sort.SMT()))
			}
		case "uf":
			if !seen["u"+t.S] {
				seen["u"+t.S] = true
				var as []string
				for _, a := range t.Args {
					as = append(as, a.Sort.SMT())
				}
				out = append(out, fmt.Sprintf("(declare-fun %s (%s) %s)", smtName(t.S), strings.Join(as, " "), t.Sort.SMT()))
			}
		}
	}
	return out
}

// Script renders a standalone SMT-LIB2 script asserting all of `asserts`.
func Script(asserts []*Term, getModel bool, logic string) string {
	nodes := Collect(asserts)
	var sb strings.Builder
	if logic != "" {
		sb.WriteString("(set-logic " + logic + ")\n")
	}
	if getModel {
		sb.WriteString("(set-option :produce-models true)\n")
	}
	for _, d := range declsFor(nodes) {
		sb.WriteString(d + "\n")
	}
	for _, t := range nodes {
		if t.IsConst() || t.Op == "var" || (t.Op == "uf" && len(t.Args) == 0) {
			continue
		}
		fmt.Fprintf(&sb, "(define-fun t%d () %s %s)\n", t.ID, t.Sort.SMT(), t.body())
	}
	for _, a := range asserts {
		sb.WriteString("(assert " + a.ref() + ")\n")
	}
	sb.WriteString("(check-sat)\n")
	return sb.String()
}

func varsOf(nodes []*Term) []*Term {
	var vs []*Term
	for _, t := range nodes {
		if t.Op == "var" {
			vs = append(vs, t)
		}
	}
	sort.Slice(vs, func(i, j int) bool { return vs[i].S < vs[j].S })
	return vs
}

// debug rendering (full tree, bounded)
func (t *Term) String() string {
	return t.str(6)
}
func (t *Term) str(d int) string {
	if t.IsConst() || t.Op == "var" {
		if t.Op == "bvconst" {
			return strconv.FormatInt(t.SVal(), 10)
		}
		if t.Op == "var" {
			return t.S
		}
		if t.Op == "fpconst" {
			return strconv.FormatFloat(t.F, 'g', -1, 64)
		}
		return t.ref()
	}
	if d == 0 {
		return "…"
	}
	var parts []string
	for _, a := range t.Args {
		parts = append(parts, a.str(d-1))
	}
	name := t.Op
	if t.Op == "uf" {
		name = t.S
	}
	return "(" + name + " " + strings.Join(parts, " ") + ")"
}

// ---------- mathematical integers ----------

func intBin(op string, a, b *Term) *Term {
	ac, bc := a.IsConst(), b.IsConst()
	x, y := int64(a.U), int64(b.U)
	switch op {
	case "bvadd":
		if ac && bc {
			return IntConst(x + y)
		}
		if ac && x == 0 {
			return b
		}
		if bc && y == 0 {
			return a
		}
		return App("+", IntSort, a, b)
	case "bvsub":
		if ac && bc {
			return IntConst(x - y)
		}
		if bc && y == 0 {
			return a
		}
		if a == b {
			return IntConst(0)
		}
		return App("-", IntSort, a, b)
	case "bvmul":
		if ac && bc {
			return IntConst(x * y)
		}
		if (ac && x == 0) || (bc && y == 0) {
			return IntConst(0)
		}
		if ac && x == 1 {
			return b
		}
		if bc && y == 1 {
			return a
		}
		return App("*", IntSort, a, b)
	case "bvsdiv", "bvudiv":
		if ac && bc && y != 0 {
			return IntConst(x / y)
		}
		if bc && y == 1 {
			return a
		}
		return intQuo(a, b)
	case "bvsrem", "bvurem":
		if ac && bc && y != 0 {
			return IntConst(x % y)
		}
		return App("-", IntSort, a, App("*", IntSort, b, intQuo(a, b)))
	}
	panic(unsupported{"bit operation " + op + " on mathematical integers"})
}

// Go's truncated quotient on SMT's floor/euclidean div
func intQuo(a, b *Term) *Term {
	zero := IntConst(0)
	absa := Ite(App("<", BoolSort, a, zero), App("-", IntSort, a), a)
	absb := Ite(App("<", BoolSort, b, zero), App("-", IntSort, b), b)
	q := App("div", IntSort, absa, absb)
	neg := Not(Eq(App("<", BoolSort, a, zero), App("<", BoolSort, b, zero)))
	return Ite(neg, App("-", IntSort, q), q)
}
