package main

import (
	"go/constant"

	"fmt"
	"go/types"
	"golang.org/x/tools/go/ssa"
	"sort"
	"strings"
)

const zzp = "github.com/form3tech-oss/f1/v2/internal/zzverif."

type StubObj struct{ Kind string }

var nativeStubs = map[string]StubFn{}

var stubTable map[string]StubFn

func (e *Exec) lookupStub(name string) StubFn {
	if stubTable == nil {
		initStubs()
	}
	if h, ok := stubTable[name]; ok {
		return h
	}
	switch {
	case name == "(*log/slog.Logger).Enabled":
		return func(e *Exec, st *State, fn *Func, args []Value, site string) []Outcome {
			return ret(st, e.fresh("logEnabled", BoolSort)) // any logger configuration
		}
	case strings.HasPrefix(name, "(*log/slog.Logger)."), strings.HasPrefix(name, "log/slog."),
		strings.HasPrefix(name, "(*github.com/sirupsen/logrus."), strings.HasPrefix(name, "(log/slog."):
		if strings.HasPrefix(name, "log/slog.") && !(strings.HasSuffix(name, ".Default") || strings.HasSuffix(name, ".SetDefault")) {
			return stubSlogAttr
		}
		return stubZero
	case strings.HasPrefix(name, "(*sync/atomic."):
		return stubAtomic
	case strings.HasPrefix(name, "(*sync.Mutex)."), strings.HasPrefix(name, "(*sync.RWMutex)."):
		return stubMutex
	case strings.HasPrefix(name, "(*sync.WaitGroup)."), strings.HasPrefix(name, "(*sync.Cond)."), name == "sync.NewCond":
		return stubSyncMisc
	}
	return nil
}

// stubZero: no effect, returns zero values of the result types.
func stubZero(e *Exec, st *State, fn *Func, args []Value, site string) []Outcome {
	res := fn.Fn.Signature.Results()
	vals := make([]Value, res.Len())
	for i := range vals {
		vals[i] = e.zero(res.At(i).Type())
	}
	return ret(st, vals...)
}

// slog attribute constructors: opaque record
func stubSlogAttr(e *Exec, st *State, fn *Func, args []Value, site string) []Outcome {
	res := fn.Fn.Signature.Results()
	vals := make([]Value, res.Len())
	for i := range vals {
		vals[i] = e.zero(res.At(i).Type())
	}
	if e.cfg["slogrecord"] == "1" && res.Len() == 1 {
		// record constructor name + args in a ghost struct carried as an opaque attr
		vals[0] = &Struct{[]Value{StrConst(fnName(fn.Fn)), &Struct{args}}}
	}
	return ret(st, vals...)
}

func fieldIndexV(t types.Type) int {
	s := t.Underlying().(*types.Struct)
	for i := 0; i < s.NumFields(); i++ {
		if s.Field(i).Name() == "v" {
			return i
		}
	}
	fail("atomic type without v field: %v", t)
	return -1
}

func stubAtomic(e *Exec, st *State, fn *Func, args []Value, site string) []Outcome {
	name := fnName(fn.Fn) // (*sync/atomic.Int64).Add
	recvT := fn.Fn.Signature.Recv().Type().(*types.Pointer).Elem()
	p := args[0].(Ptr)
	if p.IsNil() {
		return e.panicOut(st, e.runtimeError("invalid memory address or nil pointer dereference"), "nil atomic", site)
	}
	cell := Ptr{Obj: p.Obj, Path: pathAppend(p.Path, fieldIndexV(recvT))}
	method := name[strings.LastIndex(name, ".")+1:]
	isBool := strings.Contains(name, "atomic.Bool)")
	if strings.Contains(name, "atomic.Pointer[") || strings.Contains(name, "atomic.Value)") {
		fail("atomic %s unsupported", name)
	}
	toCell := func(v Value) Value {
		if isBool {
			return Ite(v.(*Term), BVConst(1, 32), BVConst(0, 32))
		}
		return v
	}
	fromCell := func(v Value) Value {
		if isBool {
			return Not(Eq(v.(*Term), BVConst(0, 32)))
		}
		return v
	}
	if e.conc != nil {
		return e.conc.atomicOp(e, st, cell, method, args[1:], toCell, fromCell, site)
	}
	old := e.load(st, cell)
	e.ghostLog(st, "atomic", StrConst(fmt.Sprintf("%s@%d%s", method, cell.Obj, cell.Path)))
	switch method {
	case "Load":
		return ret(st, fromCell(old))
	case "Store":
		e.store(st, cell, toCell(args[1]))
		return ret(st)
	case "Add":
		nv := BVBin("bvadd", old.(*Term), args[1].(*Term))
		e.store(st, cell, nv)
		return ret(st, nv)
	case "Swap":
		e.store(st, cell, toCell(args[1]))
		return ret(st, fromCell(old))
	case "CompareAndSwap":
		c := e.eqVal(old, toCell(args[1]))
		nv, _ := mergeVal(c, toCell(args[2]), old)
		e.store(st, cell, nv)
		return ret(st, c)
	case "And":
		nv := BVBin("bvand", old.(*Term), args[1].(*Term))
		e.store(st, cell, nv)
		return ret(st, old)
	case "Or":
		nv := BVBin("bvor", old.(*Term), args[1].(*Term))
		e.store(st, cell, nv)
		return ret(st, old)
	}
	fail("atomic method %s unsupported", name)
	return nil
}

// sequential mutex model: track lock state in ghost to detect self-deadlock
func stubMutex(e *Exec, st *State, fn *Func, args []Value, site string) []Outcome {
	name := fnName(fn.Fn)
	method := name[strings.LastIndex(name, ".")+1:]
	p := args[0].(Ptr)
	if e.conc != nil {
		return e.conc.mutexOp(e, st, p, strings.Contains(name, "RWMutex"), method, site)
	}
	key := fmt.Sprintf("mu:%d%s", p.Obj, p.Path)
	if st.Ghost == nil {
		st.Ghost = map[string]Value{}
	}
	cur, _ := st.Ghost[key].(*Term) // count: -1 = write-locked, n>0 = n readers
	n := int64(0)
	if cur != nil {
		n = cur.SVal()
	}
	switch method {
	case "Lock":
		if n != 0 {
			e.issues = append(e.issues, Issue{"deadlock", "sequential self-deadlock: Lock on held mutex at " + site})
			return nil
		}
		n = -1
	case "Unlock":
		if n != -1 {
			return e.panicOut(st, e.runtimeError("sync: unlock of unlocked mutex"), "unlock of unlocked mutex", site)
		}
		n = 0
	case "RLock":
		if n < 0 {
			e.issues = append(e.issues, Issue{"deadlock", "sequential self-deadlock: RLock on write-held mutex at " + site})
			return nil
		}
		n++
	case "RUnlock":
		if n <= 0 {
			return e.panicOut(st, e.runtimeError("sync: RUnlock of unlocked RWMutex"), "runlock of unlocked", site)
		}
		n--
	case "TryLock":
		if n != 0 {
			return ret(st, False)
		}
		n = -1
		st.Ghost[key] = BVConst(uint64(n), 64)
		return ret(st, True)
	default:
		fail("mutex method %s", name)
	}
	st.Ghost[key] = BVConst(uint64(n), 64)
	return ret(st)
}

func stubSyncMisc(e *Exec, st *State, fn *Func, args []Value, site string) []Outcome {
	name := fnName(fn.Fn)
	if e.conc != nil {
		return e.conc.syncMisc(e, st, fn, name, args, site)
	}
	switch name {
	case "sync.NewCond":
		id := e.newObj(st, e.zero(fn.Fn.Signature.Results().At(0).Type().(*types.Pointer).Elem()))
		// store L (field named L)
		ct := fn.Fn.Signature.Results().At(0).Type().(*types.Pointer).Elem().Underlying().(*types.Struct)
		for i := 0; i < ct.NumFields(); i++ {
			if ct.Field(i).Name() == "L" {
				e.store(st, Ptr{Obj: id, Path: pathAppend("", i)}, args[0])
			}
		}
		return ret(st, Ptr{Obj: id})
	case "(*sync.WaitGroup).Add", "(*sync.WaitGroup).Done", "(*sync.Cond).Broadcast", "(*sync.Cond).Signal":
		return ret(st)
	}
	fail("%s in sequential mode at %s", name, site)
	return nil
}

func (e *Exec) nondet(name string, s Sort, goTy string) *Term {
	if t, ok := e.nondets[name]; ok {
		if t.Sort != s {
			fail("nondet %s requested with two sorts", name)
		}
		return t
	}
	t := Var(name, s)
	e.nondets[name] = t
	e.nondetTy[name] = goTy
	return t
}

func sliceOfInt(e *Exec, st *State, v Value) Value {
	id := e.newObj(st, &Struct{[]Value{v}})
	return Slice{Arr: id, Len: 1, Cap: 1}
}

// nondetNameRaw: name[idx,...] without thread prefix
func nondetNameRaw(e *Exec, st *State, args []Value) string {
	save := e.conc
	e.conc = nil
	defer func() { e.conc = save }()
	return nondetName(e, st, args)
}

func nondetName(e *Exec, st *State, args []Value) string {
	n := args[0].(*Term)
	if !n.IsConst() {
		fail("nondet name must be constant")
	}
	name := n.S
	if len(args) > 1 {
		if s, ok := args[1].(Slice); ok && s.Arr != 0 {
			arr := e.objContent(st, s.Arr).(*Struct)
			var parts []string
			for i := 0; i < s.Len; i++ {
				c, ok := concreteInt(arr.F[s.Off+i])
				if !ok {
					fail("nondet index must be concrete")
				}
				parts = append(parts, fmt.Sprint(c))
			}
			name += "[" + strings.Join(parts, ",") + "]"
		}
	}
	return name
}

func initStubs() {
	stubTable = map[string]StubFn{}
	nd := func(goTy string, mkSort func(e *Exec) Sort) StubFn {
		return func(e *Exec, st *State, fn *Func, args []Value, site string) []Outcome {
			v := e.nondet(nondetName(e, st, args), mkSort(e), goTy)
			if mathInts && v.Sort.K == SInt {
				// mathematical integers standing in for machine words: an arbitrary value of the Go type lies in the
				// type's range (without this an "arbitrary uint64" could be negative)
				lo, hi := "", ""
				switch goTy {
				case "uint64":
					lo, hi = "0", "18446744073709551615"
				case "uint8":
					lo, hi = "0", "255"
				case "int", "int64":
					lo, hi = "(- 9223372036854775808)", "9223372036854775807"
				case "int32":
					lo, hi = "(- 2147483648)", "2147483647"
				}
				if lo != "" {
					st.Assume(mk("raw", BoolSort, 0, 0, "(and (<= "+lo+" "+v.ref()+") (<= "+v.ref()+" "+hi+"))", v))
				}
			}
			return ret(st, v)
		}
	}
	bv := func(w int) func(*Exec) Sort {
		return func(*Exec) Sort {
			if mathInts {
				return IntSort
			}
			return BV(w)
		}
	}
	stubTable[zzp+"Bool"] = nd("bool", func(*Exec) Sort { return BoolSort })
	stubTable[zzp+"Int"] = nd("int", bv(64))
	stubTable[zzp+"Int64"] = nd("int64", bv(64))
	stubTable[zzp+"Uint64"] = nd("uint64", bv(64))
	stubTable[zzp+"Int32"] = nd("int32", bv(32))
	stubTable[zzp+"Uint8"] = nd("uint8", bv(8))
	stubTable[zzp+"Float64"] = nd("float64", func(e *Exec) Sort {
		if e.fpRelaxed {
			return RealSort
		}
		return FPSort
	})
	stubTable[zzp+"String"] = nd("string", func(*Exec) Sort { return StringSort })

	stubTable[zzp+"Assume"] = func(e *Exec, st *State, fn *Func, args []Value, site string) []Outcome {
		c := args[0].(*Term)
		if c.IsFalse() {
			debugf("path ends: Assume(false) at %s", site)
			return nil
		}
		st.Assume(c)
		return ret(st)
	}
	stubTable[zzp+"Assert"] = func(e *Exec, st *State, fn *Func, args []Value, site string) []Outcome {
		id := args[0].(*Term).S
		c := args[1].(*Term)
		e.addOblig(&Obligation{ID: id, Kind: "assert", PC: st.PCTerm(), Cond: c, Site: site})
		// the path continues WITHOUT assuming the condition (keeps path conditions small; every
		// obligation is decided on its own)
		return ret(st)
	}
	stubTable[zzp+"Check"] = func(e *Exec, st *State, fn *Func, args []Value, site string) []Outcome {
		// like Assert but does not assume afterwards
		id := args[0].(*Term).S
		c := args[1].(*Term)
		e.addOblig(&Obligation{ID: id, Kind: "assert", PC: st.PCTerm(), Cond: c, Site: site})
		return ret(st)
	}
	stubTable[zzp+"Cover"] = func(e *Exec, st *State, fn *Func, args []Value, site string) []Outcome {
		id := args[0].(*Term).S
		e.addOblig(&Obligation{ID: id, Kind: "cover", PC: st.PCTerm(), Cond: True, Site: site})
		return ret(st)
	}
	stubTable[zzp+"CoverIf"] = func(e *Exec, st *State, fn *Func, args []Value, site string) []Outcome {
		id := args[0].(*Term).S
		e.addOblig(&Obligation{ID: id, Kind: "cover", PC: And(st.PCTerm(), args[1].(*Term)), Cond: True, Site: site})
		return ret(st)
	}
	stubTable[zzp+"Implies"] = func(e *Exec, st *State, fn *Func, args []Value, site string) []Outcome {
		return ret(st, Implies(args[0].(*Term), args[1].(*Term)))
	}
	stubTable[zzp+"And"] = func(e *Exec, st *State, fn *Func, args []Value, site string) []Outcome {
		return ret(st, And(args[0].(*Term), args[1].(*Term)))
	}
	stubTable[zzp+"Or"] = func(e *Exec, st *State, fn *Func, args []Value, site string) []Outcome {
		return ret(st, Or(args[0].(*Term), args[1].(*Term)))
	}
	stubTable[zzp+"Ite"] = func(e *Exec, st *State, fn *Func, args []Value, site string) []Outcome {
		return ret(st, Ite(args[0].(*Term), args[1].(*Term), args[2].(*Term)))
	}
	stubTable[zzp+"Choice"] = func(e *Exec, st *State, fn *Func, args []Value, site string) []Outcome {
		name := nondetName(e, st, []Value{args[0], args[2]})
		n, ok := concreteInt(args[1])
		if !ok {
			fail("Choice bound must be concrete")
		}
		cs := BV(64)
		if mathInts {
			cs = IntSort
		}
		v := e.nondet(name, cs, "int")
		var outs []Outcome
		for i := int64(0); i < n; i++ {
			c := Eq(v, BVConst(uint64(i), 64))
			if !e.feasible(st, c) {
				continue
			}
			s := st.Clone()
			s.Assume(c)
			outs = append(outs, Outcome{st: s, kind: oReturn, vals: []Value{BVConst(uint64(i), 64)}})
		}
		e.forks += len(outs) - 1
		debugf("Choice %s n=%d -> %d feasible", name, n, len(outs))
		return outs
	}
	stubTable[zzp+"Concretize"] = func(e *Exec, st *State, fn *Func, args []Value, site string) []Outcome {
		v := args[0].(*Term)
		lo, _ := concreteInt(args[1])
		hi, _ := concreteInt(args[2])
		if v.IsConst() {
			return ret(st, v)
		}
		var outs []Outcome
		for i := lo; i <= hi; i++ {
			c := Eq(v, BVConst(uint64(i), 64))
			if !e.feasible(st, c) {
				continue
			}
			s := st.Clone()
			s.Assume(c)
			outs = append(outs, Outcome{st: s, kind: oReturn, vals: []Value{BVConst(uint64(i), 64)}})
		}
		// values outside [lo,hi] are outside the stated bound: assumed away (caller states the bound)
		e.forks += len(outs) - 1
		return outs
	}
	stubTable[zzp+"Unroll"] = func(e *Exec, st *State, fn *Func, args []Value, site string) []Outcome {
		n, _ := concreteInt(args[0])
		e.unroll = int(n)
		return ret(st)
	}
	stubTable[zzp+"Native"] = func(e *Exec, st *State, fn *Func, args []Value, site string) []Outcome {
		return ret(st, False) // true only in the natively compiled replay (environment set-up that the encoding stubs out)
	}
	stubTable[zzp+"Thorough"] = func(e *Exec, st *State, fn *Func, args []Value, site string) []Outcome {
		return ret(st, BoolConst(e.cfg["tier"] == "thorough"))
	}
	rbin := func(op string) StubFn {
		return func(e *Exec, st *State, fn *Func, args []Value, site string) []Outcome {
			a, b := args[0].(*Term), args[1].(*Term)
			if a.Sort.K != SReal {
				fail("exact-real intrinsic outside relaxed-real mode")
			}
			return ret(st, App(op, RealSort, a, b))
		}
	}
	stubTable[zzp+"RAdd"] = rbin("+")
	stubTable[zzp+"RSub"] = rbin("-")
	stubTable[zzp+"RMul"] = rbin("*")
	stubTable[zzp+"RDiv"] = rbin("/")
	stubTable[zzp+"RAbs"] = func(e *Exec, st *State, fn *Func, args []Value, site string) []Outcome {
		a := args[0].(*Term)
		return ret(st, Ite(App("<", BoolSort, a, RealConst("0.0")), App("-", RealSort, a), a))
	}
	stubTable[zzp+"RLess"] = func(e *Exec, st *State, fn *Func, args []Value, site string) []Outcome {
		return ret(st, App("<", BoolSort, args[0].(*Term), args[1].(*Term)))
	}
	stubTable[zzp+"RLeq"] = func(e *Exec, st *State, fn *Func, args []Value, site string) []Outcome {
		return ret(st, App("<=", BoolSort, args[0].(*Term), args[1].(*Term)))
	}
	stubTable[zzp+"FloorUF"] = func(e *Exec, st *State, fn *Func, args []Value, site string) []Outcome {
		return stubTable["math.Floor"](e, st, fn, args, site)
	}
	concStr := func(v Value, what string) string {
		t, ok := v.(*Term)
		if !ok || t.Op != "strconst" {
			fail("%s: argument must be a constant string", what)
		}
		return t.S
	}
	concInt := func(v Value, what string) int {
		t, ok := v.(*Term)
		if !ok || !t.IsConst() {
			fail("%s: argument must be a constant integer", what)
		}
		return int(t.SVal())
	}
	stubTable[zzp+"TmplInt"] = func(e *Exec, st *State, fn *Func, args []Value, site string) []Outcome {
		n := tmplInt(concStr(args[0], "TmplInt"), concStr(args[1], "TmplInt"), concInt(args[2], "TmplInt"))
		if mathInts {
			return ret(st, IntConst(int64(n)))
		}
		return ret(st, BVConst(uint64(n), 64))
	}
	stubTable[zzp+"TmplStr"] = func(e *Exec, st *State, fn *Func, args []Value, site string) []Outcome {
		return ret(st, StrConst(tmplStr(concStr(args[0], "TmplStr"), concStr(args[1], "TmplStr"), concInt(args[2], "TmplStr"), concInt(args[3], "TmplStr"))))
	}
	stubTable[zzp+"FieldLen"] = func(e *Exec, st *State, fn *Func, args []Value, site string) []Outcome {
		iv := args[0].(Iface)
		pt, ok := iv.T.(*types.Pointer)
		if !ok {
			fail("FieldLen: not a pointer")
		}
		stt := pt.Elem().Underlying().(*types.Struct)
		name := args[1].(*Term).S
		for i := 0; i < stt.NumFields(); i++ {
			if stt.Field(i).Name() == name {
				p := iv.V.(Ptr)
				v := e.load(st, Ptr{Obj: p.Obj, Path: pathAppend(p.Path, i)})
				return ret(st, BVConst(uint64(v.(Slice).Len), 64))
			}
		}
		fail("FieldLen: no field %s", name)
		return nil
	}
	stubTable[zzp+"ClockLogLen"] = func(e *Exec, st *State, fn *Func, args []Value, site string) []Outcome {
		l, _ := st.Ghost["clocklog"].(*Struct)
		if l == nil {
			return ret(st, BVConst(0, 64))
		}
		return ret(st, BVConst(uint64(len(l.F)), 64))
	}
	stubTable[zzp+"ClockAt"] = func(e *Exec, st *State, fn *Func, args []Value, site string) []Outcome {
		l, _ := st.Ghost["clocklog"].(*Struct)
		i, ok := concreteInt(args[0])
		if l == nil || !ok || i < 0 || int(i) >= len(l.F) {
			fail("ClockAt: index out of range")
		}
		return ret(st, l.F[i])
	}
	// GhostStr(name, i, j): j-th element (string) of the i-th ghost record; GhostInt likewise
	ghostElem := func(e *Exec, st *State, args []Value) Value {
		l, _ := st.Ghost["log:"+args[0].(*Term).S].(*Struct)
		i, _ := concreteInt(args[1])
		j, _ := concreteInt(args[2])
		if l == nil || int(i) >= len(l.F) {
			fail("ghost record %d out of range", i)
		}
		rec := l.F[i].(*Struct)
		if int(j) >= len(rec.F) {
			fail("ghost field %d out of range", j)
		}
		return rec.F[j]
	}
	stubTable[zzp+"GhostStr"] = func(e *Exec, st *State, fn *Func, args []Value, site string) []Outcome {
		return ret(st, ghostElem(e, st, args))
	}
	stubTable[zzp+"GhostInt"] = stubTable[zzp+"GhostStr"]
	stubTable[zzp+"GhostRecLen"] = func(e *Exec, st *State, fn *Func, args []Value, site string) []Outcome {
		l, _ := st.Ghost["log:"+args[0].(*Term).S].(*Struct)
		i, _ := concreteInt(args[1])
		if l == nil || int(i) >= len(l.F) {
			fail("ghost record %d out of range", i)
		}
		return ret(st, BVConst(uint64(len(l.F[i].(*Struct).F)), 64))
	}
	evKey := func(e *Exec, st *State, args []Value) string {
		return nondetNameRaw(e, st, args)
	}
	// Event(name, idx...): ghost event in the current thread
	stubTable[zzp+"Event"] = func(e *Exec, st *State, fn *Func, args []Value, site string) []Outcome {
		if e.conc == nil {
			return ret(st)
		}
		key := evKey(e, st, args)
		if old, dup := e.conc.named[key]; dup {
			// occurrences on different paths of one thread are mutually exclusive; on the same path it is a harness bug
			if old.Thread != st.Thread.rec.id {
				fail("ghost event %s emitted by two threads", key)
			}
		}
		ev := e.conc.emit(st, "ghost", "", site)
		ev.Name = key
		if old, dup := e.conc.named[key]; dup {
			// mutually exclusive occurrences: tie them together through an alias event list
			ev.Aux = append(old.Aux, old)
		}
		e.conc.named[key] = ev
		return ret(st)
	}
	// Before(nameA, nameB, idxA, idxB): clock(A) < clock(B)
	stubTable[zzp+"Before"] = func(e *Exec, st *State, fn *Func, args []Value, site string) []Outcome {
		if e.conc == nil {
			fail("Before outside concurrent mode")
		}
		a := nondetNameRaw(e, st, []Value{args[0], sliceOfInt(e, st, args[2])})
		b := nondetNameRaw(e, st, []Value{args[1], sliceOfInt(e, st, args[3])})
		return ret(st, App("<", BoolSort, e.conc.placeholder("clk", a, IntSort), e.conc.placeholder("clk", b, IntSort)))
	}
	// TimeOf(name, idx...): real time (ns, mathematical integer carried as int64) of a ghost event
	stubTable[zzp+"TimeOf"] = func(e *Exec, st *State, fn *Func, args []Value, site string) []Outcome {
		if e.conc == nil {
			fail("TimeOf outside concurrent mode")
		}
		t := e.conc.placeholder("time", evKey(e, st, args), IntSort)
		if mathInts {
			return ret(st, t)
		}
		return ret(st, mk("int2bv", BV(64), 0, 0, "", t))
	}
	// After(nameA, nameB, idxA, idxB, d): time(B) >= time(A) + d   (real time, exact integers)
	stubTable[zzp+"NotBefore"] = func(e *Exec, st *State, fn *Func, args []Value, site string) []Outcome {
		if e.conc == nil {
			fail("NotBefore outside concurrent mode")
		}
		a := nondetNameRaw(e, st, []Value{args[0], sliceOfInt(e, st, args[2])})
		b := nondetNameRaw(e, st, []Value{args[1], sliceOfInt(e, st, args[3])})
		d := durInt(args[4].(*Term))
		ta, tb := e.conc.placeholder("time", a, IntSort), e.conc.placeholder("time", b, IntSort)
		return ret(st, App("<=", BoolSort, App("+", IntSort, ta, d), tb))
	}
	stubTable[zzp+"Happened"] = func(e *Exec, st *State, fn *Func, args []Value, site string) []Outcome {
		if e.conc == nil {
			fail("Happened outside concurrent mode")
		}
		return ret(st, e.conc.placeholder("exec", evKey(e, st, args), BoolSort))
	}
	stubTable[zzp+"ThreadID"] = func(e *Exec, st *State, fn *Func, args []Value, site string) []Outcome {
		if e.conc == nil || st.Thread == nil {
			return ret(st, BVConst(0, 64))
		}
		return ret(st, BVConst(uint64(st.Thread.rec.id), 64))
	}
	stubTable[zzp+"InAlphabet"] = func(e *Exec, st *State, fn *Func, args []Value, site string) []Outcome {
		s, a := args[0].(*Term), args[1].(*Term)
		if !a.IsConst() {
			fail("InAlphabet: alphabet must be constant")
		}
		var alts []string
		for _, c := range a.S {
			alts = append(alts, "(str.to_re "+smtString(string(c))+")")
		}
		re := "(re.* (re.union " + strings.Join(alts, " ") + "))"
		if len(alts) == 1 {
			re = "(re.* " + alts[0] + ")"
		}
		return ret(st, inRe(s, re))
	}
	stubTable[zzp+"Symbolic"] = func(e *Exec, st *State, fn *Func, args []Value, site string) []Outcome {
		return ret(st, True)
	}
	stubTable[zzp+"Note"] = func(e *Exec, st *State, fn *Func, args []Value, site string) []Outcome {
		return ret(st)
	}
	stubTable[zzp+"Config"] = func(e *Exec, st *State, fn *Func, args []Value, site string) []Outcome {
		e.cfg[args[0].(*Term).S] = args[1].(*Term).S
		return ret(st)
	}
	// Observe(name, int64): records a term whose model value is compared against the native run
	stubTable[zzp+"Observe"] = func(e *Exec, st *State, fn *Func, args []Value, site string) []Outcome {
		return ret(st)
	}

	stubTable[zzp+"GhostLen"] = func(e *Exec, st *State, fn *Func, args []Value, site string) []Outcome {
		l, _ := st.Ghost["log:"+args[0].(*Term).S].(*Struct)
		if l == nil {
			return ret(st, BVConst(0, 64))
		}
		return ret(st, BVConst(uint64(len(l.F)), 64))
	}
	stubTable[zzp+"GhostReset"] = func(e *Exec, st *State, fn *Func, args []Value, site string) []Outcome {
		if st.Ghost != nil {
			delete(st.Ghost, "log:"+args[0].(*Term).S)
		}
		return ret(st)
	}
	// GhostCount(name, prefix): number of entries of the ghost log whose text starts with prefix
	stubTable[zzp+"GhostCount"] = func(e *Exec, st *State, fn *Func, args []Value, site string) []Outcome {
		l, _ := st.Ghost["log:"+args[0].(*Term).S].(*Struct)
		n := 0
		if l != nil {
			for _, v := range l.F {
				if t, ok := v.(*Term); ok && t.IsConst() && strings.HasPrefix(t.S, args[1].(*Term).S) {
					n++
				}
			}
		}
		return ret(st, BVConst(uint64(n), 64))
	}
	closureCell := func(e *Exec, st *State, args []Value) Ptr {
		iv := args[0].(Iface)
		f, ok := iv.V.(*Func)
		if !ok || f == nil || f.Fn == nil {
			fail("ClosureVar: not a closure")
		}
		name := args[1].(*Term).S
		for i, fv := range f.Fn.FreeVars {
			if fv.Name() == name {
				p, ok := f.Free[i].(Ptr)
				if !ok {
					fail("ClosureVar: %s is not captured by reference", name)
				}
				return p
			}
		}
		fail("ClosureVar: closure %s has no captured variable %s", f.Fn.Name(), name)
		return Ptr{}
	}
	// FuncMapEntry(parent, key): the function literal that `parent` stores under the constant string key `key` in a
	// map (a template.FuncMap built inside parent) — gives harnesses access to helper closures that have no name.
	// The entry is looked up in parent's SSA on every run (MapUpdate with a constant key).
	stubTable[zzp+"FuncMapEntry"] = func(e *Exec, st *State, fn *Func, args []Value, site string) []Outcome {
		iv := args[0].(Iface)
		f, ok := iv.V.(*Func)
		if !ok || f == nil || f.Fn == nil {
			fail("FuncMapEntry: first argument is not a function")
		}
		key := args[1].(*Term)
		if !key.IsConst() {
			fail("FuncMapEntry: key must be constant")
		}
		var found *ssa.Function
		for _, b := range f.Fn.Blocks {
			for _, in := range b.Instrs {
				mu, ok := in.(*ssa.MapUpdate)
				if !ok {
					continue
				}
				kc, ok := mu.Key.(*ssa.Const)
				if !ok || kc.Value == nil || kc.Value.Kind() != constant.String || constant.StringVal(kc.Value) != key.S {
					continue
				}
				v := mu.Value
				if mi, ok := v.(*ssa.MakeInterface); ok {
					v = mi.X
				}
				switch fv := v.(type) {
				case *ssa.Function:
					found = fv
				case *ssa.MakeClosure:
					if len(fv.Bindings) == 0 {
						found = fv.Fn.(*ssa.Function)
					}
				}
			}
		}
		if found == nil {
			fail("FuncMapEntry: %s stores no capture-free function literal under key %q", f.Fn.Name(), key.S)
		}
		e.stubsUsed["helper closure "+found.String()+" taken from the function map of "+f.Fn.String()] = true
		return ret(st, Iface{T: found.Signature, V: &Func{Fn: found}})
	}
	stubTable[zzp+"SetClosureInt"] = func(e *Exec, st *State, fn *Func, args []Value, site string) []Outcome {
		e.store(st, closureCell(e, st, args), args[2])
		return ret(st)
	}
	stubTable[zzp+"GetClosureInt"] = func(e *Exec, st *State, fn *Func, args []Value, site string) []Outcome {
		return ret(st, e.load(st, closureCell(e, st, args)))
	}
	stubTable[zzp+"SetClosureFloat"] = stubTable[zzp+"SetClosureInt"]
	stubTable[zzp+"GetClosureFloat"] = stubTable[zzp+"GetClosureInt"]
	// ---- runtime / misc stdlib ----
	stubTable["runtime/debug.Stack"] = func(e *Exec, st *State, fn *Func, args []Value, site string) []Outcome {
		return ret(st, Slice{})
	}
	stubTable["fmt.Sprintf"] = func(e *Exec, st *State, fn *Func, args []Value, site string) []Outcome {
		return ret(st, e.fresh("sprintf", StringSort))
	}
	stubTable["fmt.Sprint"] = stubTable["fmt.Sprintf"]
	stubTable["fmt.Errorf"] = func(e *Exec, st *State, fn *Func, args []Value, site string) []Outcome {
		return ret(st, e.stubError(st, e.fresh("errorf", StringSort), wrappedOf(e, st, args)))
	}
	stubTable["errors.Is"] = func(e *Exec, st *State, fn *Func, args []Value, site string) []Outcome {
		return ret(st, e.errorsIs(st, args[0].(Iface), args[1].(Iface)))
	}
	stubTable["github.com/form3tech-oss/f1/v2/internal/xtime.NanoTime"] = func(e *Exec, st *State, fn *Func, args []Value, site string) []Outcome {
		return ret(st, e.clockRead(st, "nanotime"))
	}
	stubTable["github.com/form3tech-oss/f1/v2/internal/xtime.nanotime"] = stubTable["github.com/form3tech-oss/f1/v2/internal/xtime.NanoTime"]
	stubTable["strconv.FormatUint"] = func(e *Exec, st *State, fn *Func, args []Value, site string) []Outcome {
		v := args[0].(*Term)
		b := args[1].(*Term)
		if v.IsConst() && b.IsConst() && b.U == 10 {
			return ret(st, StrConst(fmt.Sprint(v.U)))
		}
		return ret(st, UF("FormatUint", StringSort, v, b))
	}
	stubTable["strconv.Itoa"] = func(e *Exec, st *State, fn *Func, args []Value, site string) []Outcome {
		v := args[0].(*Term)
		if v.IsConst() {
			return ret(st, StrConst(fmt.Sprint(v.SVal())))
		}
		return ret(st, UF("Itoa", StringSort, v))
	}
	stubTable["github.com/stretchr/testify/require.New"] = func(e *Exec, st *State, fn *Func, args []Value, site string) []Outcome {
		return ret(st, Ptr{})
	}
	// cobra / pflag: flag getters return arbitrary values of their type (flag parsing itself is outside the claim)
	flagGet := func(goTy string, s Sort) StubFn {
		return func(e *Exec, st *State, fn *Func, args []Value, site string) []Outcome {
			n := args[1].(*Term)
			name := "flag:?"
			if n.IsConst() {
				name = "flag:" + n.S
			}
			var v Value = e.nondet(name, s, goTy)
			return ret(st, v, Iface{})
		}
	}
	pf := "(*github.com/spf13/pflag.FlagSet)."
	stubTable[pf+"GetBool"] = flagGet("bool", BoolSort)
	stubTable[pf+"GetInt"] = flagGet("int", BV(64))
	stubTable[pf+"GetUint64"] = flagGet("uint64", BV(64))
	stubTable[pf+"GetDuration"] = flagGet("int64", BV(64))
	stubTable[pf+"GetString"] = flagGet("string", StringSort)
	stubTable[pf+"GetFloat64"] = func(e *Exec, st *State, fn *Func, args []Value, site string) []Outcome {
		n := args[1].(*Term)
		s := FPSort
		if e.fpRelaxed {
			s = RealSort
		}
		return ret(st, e.nondet("flag:"+n.S, s, "float64"), Iface{})
	}
	stubTable["(*github.com/spf13/cobra.Command).Flags"] = func(e *Exec, st *State, fn *Func, args []Value, site string) []Outcome {
		id := e.newObj(st, &Opaque{"flagset"})
		return ret(st, Ptr{Obj: id})
	}
	stubTable["(*github.com/spf13/cobra.Command).Context"] = func(e *Exec, st *State, fn *Func, args []Value, site string) []Outcome {
		return ret(st, Iface{})
	}
	stubTable["(*"+modPath+"/internal/ui.Output).Display"] = func(e *Exec, st *State, fn *Func, args []Value, site string) []Outcome {
		e.ghostLog(st, "display", args[1])
		return ret(st)
	}
	initPromStubs()
	initSyncMapStubs()
	initStringParserStubs()
	initCtxStubs()
	initMathStubs()
	initTimeStubs()
	initStringStubs()
}

// ---- stub errors ----

var stubErrType types.Type

func (e *Exec) stubErrT() types.Type {
	if stubErrType == nil {
		// use *fmt.wrapError as the dynamic type so that `.(error)` assertions and Error() dispatch work
		fm := e.prog.ImportedPackage("fmt")
		if fm == nil {
			fail("fmt not loaded")
		}
		stubErrType = types.NewPointer(fm.Type("wrapError").Type())
	}
	return stubErrType
}

// stubError builds a *fmt.wrapError{msg, err}
func (e *Exec) stubError(st *State, msg *Term, wrapped Value) Value {
	if wrapped == nil {
		wrapped = Iface{}
	}
	id := e.newObj(st, &Struct{[]Value{msg, wrapped}})
	return Iface{T: e.stubErrT(), V: Ptr{Obj: id}}
}

func wrappedOf(e *Exec, st *State, args []Value) Value {
	// fmt.Errorf(format, args...): if format contains %w take the first error-typed arg
	f := args[0].(*Term)
	if !f.IsConst() || !strings.Contains(f.S, "%w") {
		return nil
	}
	s, ok := args[1].(Slice)
	if !ok || s.Arr == 0 {
		return nil
	}
	arr := e.objContent(st, s.Arr).(*Struct)
	for i := 0; i < s.Len; i++ {
		if iv, ok := arr.F[s.Off+i].(Iface); ok && iv.T != nil {
			if types.Implements(iv.T, errorIface()) {
				return iv
			}
		}
	}
	return nil
}

func errorIface() *types.Interface {
	return types.Universe.Lookup("error").Type().Underlying().(*types.Interface)
}

func (e *Exec) errorsIs(st *State, err, target Iface) *Term {
	for depth := 0; depth < 8; depth++ {
		if err.T == nil {
			return BoolConst(target.T == nil)
		}
		c := e.eqVal(err, target)
		if !c.IsFalse() {
			return c
		}
		// unwrap *fmt.wrapError
		if types.Identical(err.T, e.stubErrT()) {
			w := e.load(st, err.V.(Ptr)).(*Struct)
			next, ok := w.F[1].(Iface)
			if !ok {
				return False
			}
			err = next
			continue
		}
		return False
	}
	return False
}

// clockRead returns a fresh non-decreasing clock reading.
func (e *Exec) clockRead(st *State, kind string) *Term {
	if st.Ghost == nil {
		st.Ghost = map[string]Value{}
	}
	prev, _ := st.Ghost["clock:"+kind].(*Term)
	n := e.fresh("clk_"+kind, BV(64))
	// keep within a range that avoids wrap: 0 <= t < 2^62
	st.Assume(BVCmp("bvsle", BVConst(0, 64), n))
	st.Assume(BVCmp("bvslt", n, BVConst(1<<62, 64)))
	if prev != nil {
		st.Assume(BVCmp("bvsle", prev, n))
	}
	st.Ghost["clock:"+kind] = n
	if log, ok := st.Ghost["clocklog"].(*Struct); ok {
		st.Ghost["clocklog"] = &Struct{append(append([]Value(nil), log.F...), n)}
	} else {
		st.Ghost["clocklog"] = &Struct{[]Value{n}}
	}
	return n
}

// ghostLog appends a value to a named ghost list (readable by harnesses through zzverif.GhostLen etc.)
func (e *Exec) ghostLog(st *State, name string, v Value) {
	if e.cfg["ghostlog"] == "" {
		return // ghost logs are opt-in (//verif:ghostlog 1): differing log lengths prevent state merging
	}
	if st.Ghost == nil {
		st.Ghost = map[string]Value{}
	}
	cur, _ := st.Ghost["log:"+name].(*Struct)
	var f []Value
	if cur != nil {
		f = append(f, cur.F...)
	}
	st.Ghost["log:"+name] = &Struct{append(f, v)}
}

// ---- Prometheus (abstract multiset keyed by label values) ----

const promPkg = "github.com/prometheus/client_golang/prometheus"

func sliceStrings(e *Exec, st *State, v Value) []Value {
	s := v.(Slice)
	if s.Arr == 0 {
		return nil
	}
	arr := e.objContent(st, s.Arr).(*Struct)
	return append([]Value(nil), arr.F[s.Off:s.Off+s.Len]...)
}

// promChildEpoch: generation (number of Resets of its vector so far) in which a labelled child was created
var promChildEpoch = map[int]int{}

// promVecOf: object id of a vector's embedded MetricVec -> object id of the vector
var promVecOf = map[uint64]uint64{}

func promEpoch(st *State, vec uint64) int {
	l, _ := st.Ghost["log:prom.reset"].(*Struct)
	if l == nil {
		return 0
	}
	n := 0
	for _, r := range l.F {
		if rs, ok := r.(*Struct); ok && len(rs.F) > 0 {
			if t, ok := rs.F[0].(*Term); ok && t.IsConst() && (t.U == vec || promVecOf[t.U] == vec) {
				n++
			}
		}
	}
	return n
}

func initPromStubs() {
	newVec := func(e *Exec, st *State, fn *Func, args []Value, site string) []Outcome {
		// opts struct: field "Name"
		name := Value(StrConst("?"))
		if os, ok := args[0].(*Struct); ok {
			ot := fn.Fn.Signature.Params().At(0).Type().Underlying().(*types.Struct)
			for i := 0; i < ot.NumFields(); i++ {
				if ot.Field(i).Name() == "Name" {
					name = os.F[i]
				}
			}
		}
		vt := fn.Fn.Signature.Results().At(0).Type().(*types.Pointer).Elem()
		zv := e.zero(vt).(*Struct)
		vs := vt.Underlying().(*types.Struct)
		f := append([]Value(nil), zv.F...)
		for i := 0; i < vs.NumFields(); i++ {
			if vs.Field(i).Name() == "MetricVec" {
				f[i] = Ptr{Obj: e.newObj(st, &Opaque{"metricvec"})}
			}
		}
		id := e.newObj(st, &Struct{f})
		for i := 0; i < vs.NumFields(); i++ {
			if vs.Field(i).Name() == "MetricVec" {
				promVecOf[uint64(f[i].(Ptr).Obj)] = uint64(id) // Reset is promoted from the embedded *MetricVec
			}
		}
		rec := append([]Value{BVConst(uint64(id), 64), name}, sliceStrings(e, st, args[1])...)
		e.ghostLog(st, "prom.newvec", &Struct{rec})
		return ret(st, Ptr{Obj: id})
	}
	stubTable[promPkg+".NewSummaryVec"] = newVec
	stubTable[promPkg+".NewRegistry"] = func(e *Exec, st *State, fn *Func, args []Value, site string) []Outcome {
		return ret(st, Ptr{Obj: e.newObj(st, &Opaque{"registry"})})
	}
	stubTable["(*"+promPkg+".Registry).MustRegister"] = func(e *Exec, st *State, fn *Func, args []Value, site string) []Outcome {
		return ret(st)
	}
	stubTable["(*"+promPkg+".SummaryVec).Reset"] = func(e *Exec, st *State, fn *Func, args []Value, site string) []Outcome {
		e.ghostLog(st, "prom.reset", &Struct{[]Value{BVConst(uint64(args[0].(Ptr).Obj), 64)}})
		return ret(st)
	}
	stubTable["(*"+promPkg+".MetricVec).Reset"] = stubTable["(*"+promPkg+".SummaryVec).Reset"]
	stubTable["(*"+promPkg+".SummaryVec).WithLabelValues"] = func(e *Exec, st *State, fn *Func, args []Value, site string) []Outcome {
		pp := e.prog.ImportedPackage(promPkg)
		if pp == nil || pp.Type("summary") == nil {
			fail("prometheus package not loaded")
		}
		vec := uint64(args[0].(Ptr).Obj)
		// a child belongs to the generation of its vector it was created in: Reset deletes the vector's children, so a
		// child obtained before a Reset is an orphan afterwards (it still accepts observations, nothing exports them)
		id := e.newObj(st, &Struct{append([]Value{BVConst(vec, 64)}, sliceStrings(e, st, args[1])...)})
		promChildEpoch[id] = promEpoch(st, vec)
		return ret(st, Iface{T: types.NewPointer(pp.Type("summary").Type()), V: Ptr{Obj: id}})
	}
	stubTable["(*"+promPkg+".summary).Observe"] = func(e *Exec, st *State, fn *Func, args []Value, site string) []Outcome {
		child := args[0].(Ptr).Obj
		rec := e.objContent(st, child).(*Struct)
		log := "prom.observe"
		if ep, ok := promChildEpoch[child]; ok && ep != promEpoch(st, rec.F[0].(*Term).U) {
			log = "prom.orphan"
		}
		e.ghostLog(st, log, &Struct{append(append([]Value(nil), rec.F...), args[1])})
		return ret(st)
	}
	stubTable["sort.Strings"] = func(e *Exec, st *State, fn *Func, args []Value, site string) []Outcome {
		s := args[0].(Slice)
		if s.Arr == 0 || s.Len < 2 {
			return ret(st)
		}
		arr := e.objContent(st, s.Arr).(*Struct)
		f := append([]Value(nil), arr.F...)
		seg := f[s.Off : s.Off+s.Len]
		for _, v := range seg {
			if t, ok := v.(*Term); !ok || !t.IsConst() {
				fail("sort.Strings on symbolic strings")
			}
		}
		sort.Slice(seg, func(i, j int) bool { return seg[i].(*Term).S < seg[j].(*Term).S })
		st.Heap[s.Arr] = &Struct{f}
		return ret(st)
	}
}

// stubPanicValue: the value a stubbed library function panics with (an error)
func (e *Exec) stubPanicValue(st *State, msg string) Value {
	return e.stubError(st, StrConst(msg), nil)
}
