package main

import (
	"fmt"
	"go/types"
	"os"
	"runtime"
	"sort"
	"strings"

	"golang.org/x/tools/go/ssa"
)

// Value is one of: *Term (scalar: bool, ints, floats, strings), Ptr, *Struct
// (structs, arrays, tuples), Slice, Iface, *Func, MapRef, ChanRef, *Opaque.
type Value interface{}

type Ptr struct {
	Obj  int // 0 = nil
	Path string
}

func (p Ptr) IsNil() bool { return p.Obj == 0 }

func pathAppend(p string, i int) string { return p + "/" + fmt.Sprint(i) }
func pathSplit(p string) []int {
	if p == "" {
		return nil
	}
	parts := strings.Split(p[1:], "/")
	out := make([]int, len(parts))
	for i, s := range parts {
		fmt.Sscan(s, &out[i])
	}
	return out
}

type Struct struct{ F []Value }

type Slice struct {
	Arr           int // backing array object id; 0 = nil slice
	Off, Len, Cap int
}

type Iface struct {
	T     types.Type // nil = nil interface
	V     Value
	NilIf *Term // when non-nil: the interface value is nil under this condition, (T,V) otherwise
}

// isNilTerm: condition under which the interface value is nil
func (i Iface) isNilTerm() *Term {
	if i.T == nil {
		return True
	}
	if i.NilIf != nil {
		return i.NilIf
	}
	return False
}

type Func struct {
	Fn      *ssa.Function
	Free    []Value
	Builtin string // builtin name (len, append...) when Fn == nil
	Native  string // engine-native function name (stub without SSA function value)
	Bound   Value  // for bound interface method closures
	Method  *types.Func
}

type MapRef struct{ Obj int }
type ChanRef struct{ Obj int }

type MapData struct {
	Keys []Value
	Vals []Value
}

type Opaque struct{ Desc string }

// map iterator object content
type IterData struct {
	Keys  []Value
	Vals  []Value
	Pos   int
	IsStr bool
}

type unsupported struct{ msg string }

func fail(format string, a ...interface{}) {
	if os.Getenv("VERIF_DEBUG") != "" {
		buf := make([]byte, 1<<13)
		n := runtime.Stack(buf, false)
		fmt.Fprintf(os.Stderr, "fail: %s\n%s\n", fmt.Sprintf(format, a...), buf[:n])
	}
	panic(unsupported{fmt.Sprintf(format, a...)})
}

// ---------- zero values ----------

func sortOfBasic(b *types.Basic) (Sort, bool) {
	switch b.Kind() {
	case types.Bool, types.UntypedBool:
		return BoolSort, true
	case types.Int8, types.Uint8:
		return BV(8), true
	case types.Int16, types.Uint16:
		return BV(16), true
	case types.Int32, types.Uint32, types.UntypedRune:
		return BV(32), true
	case types.Int, types.Uint, types.Int64, types.Uint64, types.Uintptr, types.UntypedInt:
		return BV(64), true
	case types.Float64, types.Float32, types.UntypedFloat:
		return FPSort, true
	case types.String, types.UntypedString:
		return StringSort, true
	}
	return Sort{}, false
}

func isSigned(t types.Type) bool {
	b, ok := t.Underlying().(*types.Basic)
	if !ok {
		return false
	}
	return b.Info()&types.IsInteger != 0 && b.Info()&types.IsUnsigned == 0
}
func isFloat(t types.Type) bool {
	b, ok := t.Underlying().(*types.Basic)
	return ok && b.Info()&types.IsFloat != 0
}
func isInteger(t types.Type) bool {
	b, ok := t.Underlying().(*types.Basic)
	return ok && b.Info()&types.IsInteger != 0
}
func isString(t types.Type) bool {
	b, ok := t.Underlying().(*types.Basic)
	return ok && b.Info()&types.IsString != 0
}
func isBool(t types.Type) bool {
	b, ok := t.Underlying().(*types.Basic)
	return ok && b.Info()&types.IsBoolean != 0
}

func (e *Exec) sortOf(t types.Type) Sort {
	b, ok := t.Underlying().(*types.Basic)
	if !ok {
		fail("sortOf non-basic %v", t)
	}
	s, ok := sortOfBasic(b)
	if !ok {
		fail("sortOf unsupported basic %v", t)
	}
	if s.K == SFP && e.fpRelaxed {
		return RealSort
	}
	if s.K == SBV && mathInts {
		return IntSort
	}
	return s
}

func (e *Exec) zero(t types.Type) Value {
	switch u := t.Underlying().(type) {
	case *types.Basic:
		if u.Kind() == types.UnsafePointer {
			return Ptr{}
		}
		s := e.sortOf(t)
		switch s.K {
		case SBool:
			return False
		case SBV:
			return BVConst(0, s.W)
		case SInt:
			return IntConst(0)
		case SFP:
			return FPConst(0)
		case SReal:
			return RealConst("0.0")
		case SString:
			return StrConst("")
		}
	case *types.Pointer:
		return Ptr{}
	case *types.Struct:
		f := make([]Value, u.NumFields())
		for i := range f {
			f[i] = e.zero(u.Field(i).Type())
		}
		return &Struct{f}
	case *types.Array:
		n := int(u.Len())
		if n > 4096 {
			fail("array too large %d", n)
		}
		f := make([]Value, n)
		z := e.zero(u.Elem())
		for i := range f {
			f[i] = z
		}
		return &Struct{f}
	case *types.Tuple:
		f := make([]Value, u.Len())
		for i := range f {
			f[i] = e.zero(u.At(i).Type())
		}
		return &Struct{f}
	case *types.Slice:
		return Slice{}
	case *types.Interface:
		return Iface{}
	case *types.Signature:
		return (*Func)(nil)
	case *types.Map:
		return MapRef{}
	case *types.Chan:
		return ChanRef{}
	}
	fail("zero: unsupported type %v", t)
	return nil
}

// ---------- structural helpers on immutable aggregates ----------

func getPath(v Value, path []int) Value {
	for _, i := range path {
		s, ok := v.(*Struct)
		if !ok {
			fail("getPath into non-aggregate %T", v)
		}
		if i < 0 || i >= len(s.F) {
			fail("getPath index %d out of range %d", i, len(s.F))
		}
		v = s.F[i]
	}
	return v
}

func setPath(v Value, path []int, nv Value) Value {
	if len(path) == 0 {
		return nv
	}
	s, ok := v.(*Struct)
	if !ok {
		fail("setPath into non-aggregate %T", v)
	}
	i := path[0]
	if i < 0 || i >= len(s.F) {
		fail("setPath index %d out of range %d", i, len(s.F))
	}
	f := make([]Value, len(s.F))
	copy(f, s.F)
	f[i] = setPath(s.F[i], path[1:], nv)
	return &Struct{f}
}

// ---------- merging ----------

// mergeVal returns ite(c, a, b) when representable.
func mergeVal(c *Term, a, b Value) (Value, bool) {
	switch x := a.(type) {
	case *Term:
		y, ok := b.(*Term)
		if !ok || x.Sort != y.Sort {
			return nil, false
		}
		return Ite(c, x, y), true
	case Ptr:
		y, ok := b.(Ptr)
		return a, ok && x == y
	case *Struct:
		y, ok := b.(*Struct)
		if !ok {
			return nil, false
		}
		if x == y {
			return x, true
		}
		if len(x.F) != len(y.F) {
			return nil, false
		}
		f := make([]Value, len(x.F))
		for i := range f {
			m, ok := mergeVal(c, x.F[i], y.F[i])
			if !ok {
				return nil, false
			}
			f[i] = m
		}
		return &Struct{f}, true
	case Slice:
		y, ok := b.(Slice)
		return a, ok && x == y
	case Iface:
		y, ok := b.(Iface)
		if !ok {
			return nil, false
		}
		if x.T == nil && y.T == nil {
			return a, true
		}
		if x.T == nil {
			return Iface{T: y.T, V: y.V, NilIf: Ite(c, True, y.isNilTerm())}, true
		}
		if y.T == nil {
			return Iface{T: x.T, V: x.V, NilIf: Ite(c, x.isNilTerm(), True)}, true
		}
		if !types.Identical(x.T, y.T) {
			return nil, false
		}
		m, ok := mergeVal(c, x.V, y.V)
		if !ok {
			return nil, false
		}
		r := Iface{T: x.T, V: m}
		if x.NilIf != nil || y.NilIf != nil {
			r.NilIf = Ite(c, x.isNilTerm(), y.isNilTerm())
		}
		return r, true
	case *Func:
		y, ok := b.(*Func)
		if !ok {
			return nil, false
		}
		if x == y {
			return x, true
		}
		if x == nil || y == nil {
			return nil, false
		}
		if x.Fn != y.Fn || x.Builtin != y.Builtin || x.Native != y.Native || len(x.Free) != len(y.Free) || x.Method != y.Method {
			return nil, false
		}
		fr := make([]Value, len(x.Free))
		for i := range fr {
			m, ok := mergeVal(c, x.Free[i], y.Free[i])
			if !ok {
				return nil, false
			}
			fr[i] = m
		}
		var bound Value
		if x.Bound != nil || y.Bound != nil {
			if x.Bound == nil || y.Bound == nil {
				return nil, false
			}
			m, ok := mergeVal(c, x.Bound, y.Bound)
			if !ok {
				return nil, false
			}
			bound = m
		}
		return &Func{Fn: x.Fn, Free: fr, Builtin: x.Builtin, Native: x.Native, Bound: bound, Method: x.Method}, true
	case MapRef:
		y, ok := b.(MapRef)
		return a, ok && x == y
	case ChanRef:
		y, ok := b.(ChanRef)
		return a, ok && x == y
	case *MapData:
		y, ok := b.(*MapData)
		if !ok {
			return nil, false
		}
		if x == y {
			return x, true
		}
		if len(x.Keys) != len(y.Keys) {
			return nil, false
		}
		md := &MapData{Keys: make([]Value, len(x.Keys)), Vals: make([]Value, len(x.Keys))}
		for i := range x.Keys {
			if !sameValue(x.Keys[i], y.Keys[i]) {
				return nil, false
			}
			md.Keys[i] = x.Keys[i]
			m, ok := mergeVal(c, x.Vals[i], y.Vals[i])
			if !ok {
				return nil, false
			}
			md.Vals[i] = m
		}
		return md, true
	case *IterData:
		y, ok := b.(*IterData)
		if ok && x == y {
			return x, true
		}
		if !ok || x.Pos != y.Pos || len(x.Keys) != len(y.Keys) {
			return nil, false
		}
		for i := range x.Keys {
			if !sameValue(x.Keys[i], y.Keys[i]) || !sameValue(x.Vals[i], y.Vals[i]) {
				return nil, false
			}
		}
		return x, true
	case *Opaque:
		y, ok := b.(*Opaque)
		return a, ok && x == y
	case nil:
		return nil, b == nil
	}
	return nil, false
}

// sameValue: syntactic identity (sound approximation of equality used for merge decisions)
func sameValue(a, b Value) bool {
	switch x := a.(type) {
	case *Term:
		y, ok := b.(*Term)
		return ok && x == y
	case Ptr:
		y, ok := b.(Ptr)
		return ok && x == y
	case Slice:
		y, ok := b.(Slice)
		return ok && x == y
	case MapRef:
		y, ok := b.(MapRef)
		return ok && x == y
	case ChanRef:
		y, ok := b.(ChanRef)
		return ok && x == y
	case *Struct:
		y, ok := b.(*Struct)
		if !ok || len(x.F) != len(y.F) {
			return false
		}
		if x == y {
			return true
		}
		for i := range x.F {
			if !sameValue(x.F[i], y.F[i]) {
				return false
			}
		}
		return true
	case Iface:
		y, ok := b.(Iface)
		if !ok {
			return false
		}
		if x.T == nil || y.T == nil {
			return x.T == nil && y.T == nil
		}
		return types.Identical(x.T, y.T) && sameValue(x.V, y.V) && x.NilIf == y.NilIf
	case *Func:
		y, ok := b.(*Func)
		if !ok {
			return false
		}
		if x == y {
			return true
		}
		if x == nil || y == nil || x.Fn != y.Fn || x.Builtin != y.Builtin || x.Native != y.Native || len(x.Free) != len(y.Free) {
			return false
		}
		for i := range x.Free {
			if !sameValue(x.Free[i], y.Free[i]) {
				return false
			}
		}
		return true
	case *Opaque:
		y, ok := b.(*Opaque)
		return ok && x == y
	case nil:
		return b == nil
	}
	return false
}

// ---------- equality as a term (Go ==) ----------

func (e *Exec) eqVal(a, b Value) *Term {
	switch x := a.(type) {
	case *Term:
		y, ok := b.(*Term)
		if !ok {
			fail("eq: mixed %T %T", a, b)
		}
		if x.Sort.K == SFP {
			return FPCmp("fp.eq", x, y)
		}
		return Eq(x, y)
	case Ptr:
		y := b.(Ptr)
		return BoolConst(x == y)
	case *Struct:
		y := b.(*Struct)
		var cs []*Term
		for i := range x.F {
			cs = append(cs, e.eqVal(x.F[i], y.F[i]))
		}
		return And(cs...)
	case Iface:
		y, ok := b.(Iface)
		if !ok {
			fail("eq: iface vs %T", b)
		}
		if x.T == nil || y.T == nil {
			return And(x.isNilTerm(), y.isNilTerm())
		}
		if !types.Identical(x.T, y.T) {
			return And(x.isNilTerm(), y.isNilTerm())
		}
		if x.NilIf == nil && y.NilIf == nil {
			return e.eqVal(x.V, y.V)
		}
		xn, yn := x.isNilTerm(), y.isNilTerm()
		return Or(And(xn, yn), And(Not(xn), Not(yn), e.eqVal(x.V, y.V)))
	case *Func:
		y, _ := b.(*Func)
		if x == nil || y == nil {
			return BoolConst(x == nil && y == nil)
		}
		fail("eq: comparing non-nil funcs")
	case Slice:
		y := b.(Slice)
		if x.Arr == 0 || y.Arr == 0 {
			return BoolConst(x.Arr == 0 && y.Arr == 0)
		}
		fail("eq: comparing non-nil slices")
	case MapRef:
		y := b.(MapRef)
		return BoolConst(x == y)
	case ChanRef:
		y := b.(ChanRef)
		return BoolConst(x == y)
	}
	fail("eq: unsupported %T", a)
	return nil
}

// ---------- state ----------

type Deferred struct {
	Fn   Value
	Args []Value
}

type Frame struct {
	Fn         *ssa.Function
	Env        map[ssa.Value]Value
	Defers     []Deferred
	ByDefer    bool // this frame was invoked by the deferred-call machinery
	Recovered  bool // a deferred call of this frame recovered the panic
	Visits     map[int]int
	RecoverDone bool
	Pending     *PanicInfo // panic in flight while this frame runs its deferred calls
}

type PanicInfo struct {
	Val  Value
	Desc string
	Site string
}

type State struct {
	Heap      map[int]Value
	Frames    []*Frame
	PC        []*Term
	Panicking *PanicInfo
	Thread    *ThreadCtx // concurrency mode (nil when sequential)
	Ghost     map[string]Value
	Steps     int
	Ret       []Value
}

func (s *State) Top() *Frame { return s.Frames[len(s.Frames)-1] }

func (s *State) Clone() *State {
	n := &State{Heap: make(map[int]Value, len(s.Heap)), PC: append([]*Term(nil), s.PC...), Panicking: s.Panicking, Steps: s.Steps}
	for k, v := range s.Heap {
		n.Heap[k] = v
	}
	n.Frames = make([]*Frame, len(s.Frames))
	for i, f := range s.Frames {
		nf := &Frame{Fn: f.Fn, Env: make(map[ssa.Value]Value, len(f.Env)), ByDefer: f.ByDefer, Recovered: f.Recovered, RecoverDone: f.RecoverDone, Pending: f.Pending}
		for k, v := range f.Env {
			nf.Env[k] = v
		}
		nf.Defers = append([]Deferred(nil), f.Defers...)
		if f.Visits != nil {
			nf.Visits = make(map[int]int, len(f.Visits))
			for k, v := range f.Visits {
				nf.Visits[k] = v
			}
		}
		n.Frames[i] = nf
	}
	if s.Thread != nil {
		n.Thread = s.Thread.clone()
	}
	if s.Ghost != nil {
		n.Ghost = make(map[string]Value, len(s.Ghost))
		for k, v := range s.Ghost {
			n.Ghost[k] = v
		}
	}
	return n
}

func (s *State) PCTerm() *Term { return And(s.PC...) }

func (s *State) Assume(c *Term) {
	if c.IsTrue() {
		return
	}
	s.PC = append(s.PC, c)
}

// mergeStates merges b into a (ite on a's delta condition). Both must share a
// common PC prefix of length `base`.
func mergeStates(a, b *State, base int, at *ssa.BasicBlock) (*State, bool) {
	if len(a.Frames) != len(b.Frames) {
		return nil, false
	}
	if (a.Panicking == nil) != (b.Panicking == nil) {
		return nil, false
	}
	ca := And(a.PC[base:]...)
	cb := And(b.PC[base:]...)
	n := &State{Heap: make(map[int]Value, len(a.Heap)), Steps: a.Steps}
	if b.Steps > n.Steps {
		n.Steps = b.Steps
	}
	n.PC = append(append([]*Term(nil), a.PC[:base]...), Or(ca, cb))
	for k, va := range a.Heap {
		vb, ok := b.Heap[k]
		if !ok {
			n.Heap[k] = va
			continue
		}
		if va == vb {
			n.Heap[k] = va
			continue
		}
		m, ok := mergeVal(ca, va, vb)
		if !ok {
			return nil, false
		}
		n.Heap[k] = m
	}
	for k, vb := range b.Heap {
		if _, ok := a.Heap[k]; !ok {
			n.Heap[k] = vb
		}
	}
	n.Frames = make([]*Frame, len(a.Frames))
	for i := range a.Frames {
		fa, fb := a.Frames[i], b.Frames[i]
		if fa.Fn != fb.Fn || len(fa.Defers) != len(fb.Defers) || fa.ByDefer != fb.ByDefer || fa.Recovered != fb.Recovered {
			return nil, false
		}
		if (fa.Pending == nil) != (fb.Pending == nil) {
			return nil, false
		}
		nf := &Frame{Fn: fa.Fn, Env: make(map[ssa.Value]Value, len(fa.Env)), ByDefer: fa.ByDefer, Recovered: fa.Recovered, Pending: fa.Pending}
		for k, va := range fa.Env {
			vb, ok := fb.Env[k]
			if !ok {
				continue // not defined on the other path: dead at the join by SSA dominance
			}
			if va == vb {
				nf.Env[k] = va
				continue
			}
			m, ok := mergeVal(ca, va, vb)
			if !ok {
				// differs and cannot be merged. A value defined inside the branch region does not dominate the
				// join and is dead there: drop the binding. A value whose definition dominates the join may
				// still be used: the states cannot be merged.
				if i != len(a.Frames)-1 || at == nil {
					return nil, false
				}
				if ins, isIns := k.(ssa.Instruction); isIns && ins.Block() != nil && ins.Block() != at && !ins.Block().Dominates(at) {
					continue
				}
				if _, isPhi := k.(*ssa.Phi); isPhi {
					if k.(*ssa.Phi).Block() == at {
						return nil, false
					}
				}
				return nil, false
			}
			nf.Env[k] = m
		}
		for j := range fa.Defers {
			fv, ok := mergeVal(ca, fa.Defers[j].Fn, fb.Defers[j].Fn)
			if !ok || len(fa.Defers[j].Args) != len(fb.Defers[j].Args) {
				return nil, false
			}
			d := Deferred{Fn: fv}
			for k := range fa.Defers[j].Args {
				m, ok := mergeVal(ca, fa.Defers[j].Args[k], fb.Defers[j].Args[k])
				if !ok {
					return nil, false
				}
				d.Args = append(d.Args, m)
			}
			nf.Defers = append(nf.Defers, d)
		}
		if fa.Visits != nil || fb.Visits != nil {
			nf.Visits = map[int]int{}
			for k, v := range fa.Visits {
				nf.Visits[k] = v
			}
			for k, v := range fb.Visits {
				if v > nf.Visits[k] {
					nf.Visits[k] = v
				}
			}
		}
		n.Frames[i] = nf
	}
	if len(a.Ret) != len(b.Ret) {
		return nil, false
	}
	for i := range a.Ret {
		m, ok := mergeVal(ca, a.Ret[i], b.Ret[i])
		if !ok {
			return nil, false
		}
		n.Ret = append(n.Ret, m)
	}
	if a.Panicking != nil {
		m, ok := mergeVal(ca, a.Panicking.Val, b.Panicking.Val)
		if !ok {
			return nil, false
		}
		n.Panicking = &PanicInfo{Val: m, Desc: a.Panicking.Desc, Site: a.Panicking.Site}
	}
	if a.Thread != nil || b.Thread != nil {
		if a.Thread == nil || b.Thread == nil {
			return nil, false
		}
		t, ok := mergeThreads(a.Thread, b.Thread, ca, cb)
		if !ok {
			return nil, false
		}
		n.Thread = t
	}
	if a.Ghost != nil || b.Ghost != nil {
		n.Ghost = map[string]Value{}
		keys := map[string]bool{}
		for k := range a.Ghost {
			keys[k] = true
		}
		for k := range b.Ghost {
			keys[k] = true
		}
		ks := make([]string, 0, len(keys))
		for k := range keys {
			ks = append(ks, k)
		}
		sort.Strings(ks)
		for _, k := range ks {
			va, oka := a.Ghost[k]
			vb, okb := b.Ghost[k]
			if !oka || !okb {
				return nil, false
			}
			m, ok := mergeVal(ca, va, vb)
			if !ok {
				return nil, false
			}
			n.Ghost[k] = m
		}
	}
	return n, true
}
