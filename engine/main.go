package main

import (
	"crypto/sha256"
	"encoding/json"
	"flag"
	"fmt"
	"go/ast"
	"go/types"
	"os"
	"os/exec"
	"os/signal"
	"path/filepath"
	"regexp"
	"runtime"
	"sort"
	"strconv"
	"strings"
	"sync"
	"syscall"
	"time"

	"golang.org/x/tools/go/packages"
	"golang.org/x/tools/go/ssa"
	"golang.org/x/tools/go/ssa/ssautil"
)

const modPath = "github.com/form3tech-oss/f1/v2"

var (
	repoDir  = envOr("VERIF_REPO", "/repo")
	verifDir = envOr("VERIF_DIR", "/verif")
)

func envOr(k, d string) string {
	if v := os.Getenv(k); v != "" {
		return v
	}
	return d
}

type HarnessMeta struct {
	Name    string
	Pkg     string // package dir relative to repo
	File    string
	Tier    string // "" = both, "thorough" = thorough only, "quick" = quick only
	Unroll  int
	FP      string
	Solver  string
	Timeout int
	Conc    bool
	Opts    map[string]string
	Replace map[string]string
}

type HarnessFile struct {
	Src     string // path under /verif/harness
	Pkg     string
	Overlay string // virtual path under /repo
}

var pkgDirective = regexp.MustCompile(`(?m)^//verif:pkg\s+(\S+)`)

func harnessFiles(prop string) ([]HarnessFile, error) {
	dir := filepath.Join(verifDir, "harness", prop)
	ents, err := os.ReadDir(dir)
	if err != nil {
		return nil, err
	}
	var out []HarnessFile
	var paths []string
	for _, en := range ents {
		if en.Name() == "include.txt" {
			b, _ := os.ReadFile(filepath.Join(dir, en.Name()))
			for _, l := range strings.Split(string(b), "\n") {
				l = strings.TrimSpace(l)
				if l != "" && !strings.HasPrefix(l, "#") {
					paths = append(paths, filepath.Join(dir, l))
				}
			}
		}
		if strings.HasSuffix(en.Name(), ".go") {
			paths = append(paths, filepath.Join(dir, en.Name()))
		}
	}
	for _, p := range paths {
		en := fileName(p)
		b, err := os.ReadFile(p)
		if err != nil {
			return nil, err
		}
		m := pkgDirective.FindSubmatch(b)
		if m == nil {
			return nil, fmt.Errorf("%s: missing //verif:pkg directive", p)
		}
		pkg := string(m[1])
		out = append(out, HarnessFile{Src: p, Pkg: pkg, Overlay: filepath.Join(repoDir, pkg, "zz_verif_"+prop+"_"+en)})
	}
	return out, nil
}

func fileName(p string) string { return filepath.Base(p) }

func overlayMap(files []HarnessFile) map[string][]byte {
	ov := map[string][]byte{}
	for _, f := range files {
		b, _ := os.ReadFile(f.Src)
		ov[f.Overlay] = b
	}
	zz, _ := os.ReadFile(filepath.Join(verifDir, "harness", "zzverif", "zzverif.go"))
	ov[filepath.Join(repoDir, "internal", "zzverif", "zzverif.go")] = zz
	return ov
}

func loadProgram(files []HarnessFile) (*ssa.Program, []*packages.Package, error) {
	pats := map[string]bool{"./internal/zzverif": true}
	for _, f := range files {
		pats["./"+f.Pkg] = true
	}
	var ps []string
	for p := range pats {
		ps = append(ps, p)
	}
	sort.Strings(ps)
	cfg := &packages.Config{
		Mode: packages.NeedName | packages.NeedFiles | packages.NeedCompiledGoFiles | packages.NeedImports | packages.NeedDeps |
			packages.NeedTypes | packages.NeedSyntax | packages.NeedTypesInfo | packages.NeedTypesSizes,
		Dir:     repoDir,
		Overlay: overlayMap(files),
		Env:     append(os.Environ(), "GOFLAGS=-mod=mod", "GOPROXY=off", "GOSUMDB=off", "GOTOOLCHAIN=local"),
	}
	pkgs, err := packages.Load(cfg, ps...)
	if err != nil {
		return nil, nil, err
	}
	nerr := 0
	packages.Visit(pkgs, nil, func(p *packages.Package) {
		for _, e := range p.Errors {
			fmt.Fprintln(os.Stderr, "load error:", e)
			nerr++
		}
	})
	if nerr > 0 {
		return nil, nil, fmt.Errorf("%d package load errors", nerr)
	}
	prog, _ := ssautil.AllPackages(pkgs, ssa.InstantiateGenerics)
	prog.Build()
	return prog, pkgs, nil
}

var directive = regexp.MustCompile(`^//verif:(\w+)\s*(.*)$`)

func findHarnesses(pkgs []*packages.Package, files []HarnessFile) []HarnessMeta {
	var out []HarnessMeta
	byOverlay := map[string]HarnessFile{}
	for _, f := range files {
		byOverlay[f.Overlay] = f
	}
	for _, p := range pkgs {
		for i, af := range p.Syntax {
			hf, ok := byOverlay[p.CompiledGoFiles[i]]
			if !ok {
				continue
			}
			for _, d := range af.Decls {
				fd, ok := d.(*ast.FuncDecl)
				if !ok || fd.Recv != nil || !strings.HasPrefix(fd.Name.Name, "Verif") {
					continue
				}
				if fd.Type.Params.NumFields() != 0 {
					continue
				}
				m := HarnessMeta{Name: fd.Name.Name, Pkg: hf.Pkg, File: hf.Src, Opts: map[string]string{}, Replace: map[string]string{}}
				if fd.Doc != nil {
					for _, c := range fd.Doc.List {
						mm := directive.FindStringSubmatch(strings.TrimSpace(c.Text))
						if mm == nil {
							continue
						}
						val := strings.TrimSpace(mm[2])
						switch mm[1] {
						case "tier":
							m.Tier = val
						case "unroll":
							m.Unroll, _ = strconv.Atoi(val)
						case "fp":
							m.FP = val
						case "solver":
							m.Solver = val
						case "timeout":
							m.Timeout, _ = strconv.Atoi(val)
						case "conc":
							m.Conc = true
						case "replace":
							f := strings.Fields(val)
							if len(f) == 2 {
								m.Replace[strings.ReplaceAll(f[0], "$M", modPath)] = f[1]
							}
						default:
							m.Opts[mm[1]] = val
						}
					}
				}
				out = append(out, m)
			}
		}
	}
	sort.Slice(out, func(i, j int) bool { return out[i].Name < out[j].Name })
	return out
}

// ---------------- child: run one harness ----------------

type OblResult struct {
	ID       string  `json:"id"`
	Kind     string  `json:"kind"`
	Site     string  `json:"site"`
	Res      string  `json:"result"`
	Solver   string  `json:"solver"`
	SolverS  float64 `json:"solver_s"`
	Trivial  bool    `json:"trivial,omitempty"`
	Model    Model   `json:"model,omitempty"`
	Known    string  `json:"known_finding,omitempty"`
	Replay   string  `json:"replay,omitempty"`
	Detail   string  `json:"detail,omitempty"`
	Count    int     `json:"paths"`
	Replayed string  `json:"replayed,omitempty"`
}

type HarnessResult struct {
	Harness         string            `json:"harness"`
	Pkg             string            `json:"pkg"`
	Status          string            `json:"status"` // ok | violation | inconclusive | error
	Msg             string            `json:"msg,omitempty"`
	Obligations     []OblResult       `json:"obligations"`
	Issues          []Issue           `json:"issues,omitempty"`
	Funcs           []string          `json:"functions_encoded"`
	Stubs           []string          `json:"stubs"`
	Paths           int               `json:"paths"`
	Forks           int               `json:"forks"`
	Merges          int               `json:"merges"`
	Steps           int               `json:"ssa_steps"`
	Replays         int               `json:"native_replays"`
	Validated       int               `json:"witnesses_run_natively"`
	ValidatedOK     int               `json:"witnesses_agreeing"`
	ValidationNotes []string          `json:"validation_notes,omitempty"`
	FeasQ           int               `json:"feasibility_queries"`
	Queries         int               `json:"solver_queries"`
	SolverS         float64           `json:"solver_s"`
	WallS           float64           `json:"wall_s"`
	Terms           int               `json:"terms"`
	Events          int               `json:"events,omitempty"`
	Threads         int               `json:"threads,omitempty"`
	Bounds          map[string]string `json:"bounds"`
	FPMode          string            `json:"fp_mode,omitempty"`
	Nondets         map[string]string `json:"nondets,omitempty"`
	Known           []string          `json:"known_lines,omitempty"`
	Violations      []string          `json:"violation_lines,omitempty"`
}

// outBase: where replay bundles, schedules and per-harness results go (VERIF_OUT lets concurrent runs of the same
// property, e.g. seeded-change trials, keep apart)
func outBase() string { return envOr("VERIF_OUT", filepath.Join(verifDir, "out")) }

func runChild(prop, tier, only, resultPath string, seed int) {
	t0 := time.Now()
	res := &HarnessResult{Harness: only, Status: "error", Bounds: map[string]string{}}
	checkpointPath = resultPath
	// memory watchdog: an exploration that needs more than the cap is reported as inconclusive instead of being
	// killed by the kernel (which would look like an engine crash)
	go func() {
		var ms runtime.MemStats
		for {
			time.Sleep(2 * time.Second)
			runtime.ReadMemStats(&ms)
			if ms.Sys > 10<<30 {
				res.Status = "inconclusive"
				res.Msg = fmt.Sprintf("unsupported: symbolic exploration exceeded the memory cap (10 GiB) after %.0fs", time.Since(t0).Seconds())
				res.WallS = time.Since(t0).Seconds()
				b, _ := json.MarshalIndent(res, "", " ")
				os.WriteFile(resultPath, b, 0o644)
				os.Exit(0)
			}
		}
	}()
	defer func() {
		res.WallS = time.Since(t0).Seconds()
		b, _ := json.MarshalIndent(res, "", " ")
		os.WriteFile(resultPath, b, 0o644)
	}()
	files, err := harnessFiles(prop)
	if err != nil {
		res.Msg = err.Error()
		return
	}
	prog, pkgs, err := loadProgram(files)
	if err != nil {
		res.Msg = "load: " + err.Error()
		return
	}
	var meta *HarnessMeta
	for _, m := range findHarnesses(pkgs, files) {
		if m.Name == only {
			mm := m
			meta = &mm
		}
	}
	if meta == nil {
		res.Msg = "harness not found"
		return
	}
	res.Pkg = meta.Pkg
	var spkg *ssa.Package
	for _, p := range pkgs {
		if strings.HasSuffix(p.PkgPath, "/"+meta.Pkg) || p.PkgPath == modPath+"/"+meta.Pkg {
			spkg = prog.Package(p.Types)
		}
	}
	if spkg == nil {
		res.Msg = "ssa package not found for " + meta.Pkg
		return
	}
	fn := spkg.Func(only)
	if fn == nil {
		res.Msg = "ssa function not found"
		return
	}
	if meta == nil {
		res.Msg = "harness not found"
		return
	}
	var e *Exec
	var outs []Outcome
	execErr := ""
	timeout := 60
	// shared plain memory: threads run on private heap copies; when the exploration shows that a thread could
	// observe another thread's plain store (hazard), the locations involved are re-run as tracked shared cells
	track := map[string]bool{}
	for pass := 0; ; pass++ {
		prevConc := (*ConcCtx)(nil)
		if e != nil {
			prevConc = e.conc
		}
		e = NewExec(prog)
		e.track = track
		e.stableIDs = pass > 0
		e.ufApps = map[string][][2]*Term{}
		e.harness = only
		inc := "z3"
		if meta.Solver == "z3new" {
			inc = "z3new"
		}
		e.solver = NewIncSolver(inc)
		defer func(s *IncSolver) { s.Close() }(e.solver)
		if meta.Unroll > 0 {
			e.unroll = meta.Unroll
		}
		if meta.Opts["ints"] == "math" {
			mathInts = true
			res.Bounds["integers"] = "mathematical integers (no wrap-around modelled; harness bounds keep values far below 2^63)"
		}
		if meta.FP == "uf" {
			e.fpRelaxed, e.fpUF = true, true
			res.FPMode = "uninterpreted: float operators are uninterpreted functions (sound abstraction; proves equalities that follow from equal operands)"
		} else if meta.FP == "relaxed" {
			e.fpRelaxed = true
			res.FPMode = "relaxed-real (every float op rounded within 2^-53 relative)"
		} else {
			res.FPMode = "exact IEEE-754 binary64 (SMT FloatingPoint)"
		}
		for k, v := range meta.Opts {
			e.cfg[k] = v
		}
		e.cfg["tier"] = tier
		e.replace = map[string]*ssa.Function{}
		for target, by := range meta.Replace {
			rf := spkg.Func(by)
			if rf == nil {
				res.Msg = "replace: harness function not found: " + by
				return
			}
			e.replace[target] = rf
		}
		res.Bounds["unroll"] = fmt.Sprint(e.unroll)
		if v := e.cfg["horizon"]; v != "" {
			res.Bounds["horizon_ns"] = v + " (the modelled run is shorter than this: tickers, timers and context deadlines with a constant period/delay of at least the horizon never deliver)"
		}
		if v := e.cfg["timers"]; v != "" {
			res.Bounds["timers"] = v + " (every timer/ticker event carries an instant; k-th tick not before arming + k*period; Go <= 1.22 buffered timer values)"
		}
		if e.cfg["deadlock"] != "" {
			res.Bounds["deadlock_query"] = "prefix encoding: no reachable state with a thread blocked forever (paths cut at the unroll bound excluded)"
		}
		timeout = 60
		if tier == "thorough" {
			timeout = 600
		}
		if meta.Timeout > 0 {
			timeout = meta.Timeout
		}
		res.Bounds["solver_timeout_s"] = fmt.Sprint(timeout)

		st := &State{Heap: map[int]Value{}}
		initErr := false
		func() {
			defer func() {
				if r := recover(); r != nil {
					if u, ok := asUnsupported(r); ok {
						res.Msg = "init: " + u.msg
						initErr = true
						return
					}
					panic(r)
				}
			}()
			e.runInits(st, spkg)
		}()
		if meta.Conc {
			e.conc = newConc(e)
			if prevConc != nil && e.stableIDs {
				// object ids are pass-independent now: channel descriptions of the previous pass stay valid
				for k, v := range prevConc.chans {
					e.conc.chans[k] = v
				}
				for k, v := range prevConc.doneChains {
					e.conc.doneChains[k] = v
				}
			}
		}
		outs = nil
		execErr = ""
		func() {
			defer func() {
				if r := recover(); r != nil {
					if u, ok := asUnsupported(r); ok {
						execErr = u.msg
						return
					}
					panic(r)
				}
			}()
			if e.conc != nil {
				e.conc.runMain(e, st, fn)
			} else {
				outs = e.callValue(st, &Func{Fn: fn}, nil, false, "harness")
			}
		}()
		if initErr {
			return
		}
		if e.conc == nil || execErr != "" {
			break
		}
		hz, keys, untrackable := e.conc.plainHazards()
		if len(hz) == 0 {
			mc := e.conc.missedCandidates()
			if len(mc) == 0 {
				break
			}
			if os.Getenv("VERIF_HAZARD") != "" {
				for _, m := range mc {
					fmt.Fprintln(os.Stderr, "missed candidate (pass", pass, "):", m)
				}
			}
			if pass >= 5 {
				e.issues = append(e.issues, Issue{"unsupported", "shared plain memory: no fixpoint of read-from candidates after 6 passes: " + mc[0]})
				break
			}
			e.conc.rememberStores()
			e.solver.Close()
			continue
		}
		if os.Getenv("VERIF_HAZARD") != "" {
			for _, h := range hz {
				fmt.Fprintln(os.Stderr, "plain-memory hazard (pass", pass, "):", h)
			}
		}
		grew := false
		for k := range keys {
			if !track[k] {
				grew = true
			}
		}
		if untrackable || !grew || pass >= 5 {
			e.issues = append(e.issues, Issue{"unsupported", "threads communicate through plain memory that is not modelled as shared: " + hz[0]})
			break
		}
		nt := map[string]bool{}
		for k := range track {
			nt[k] = true
		}
		for k := range keys {
			nt[k] = true
		}
		track = nt
		e.conc.rememberStores()
		e.solver.Close()
	}
	if len(track) > 0 {
		res.Bounds["shared_plain_cells"] = "plain memory locations through which threads communicate, modelled as sequentially consistent cells: " + strings.Join(sortedKeys(track), " ; ")
	}
	if execErr != "" {
		res.Status = "inconclusive"
		res.Msg = "unsupported: " + execErr
		res.Issues = e.issues
		return
	}
	for _, o := range outs {
		if o.kind == oPanic {
			pi := o.st.Panicking
			e.addOblig(&Obligation{ID: only + ".nopanic", Kind: "nopanic", PC: o.st.PCTerm(), Cond: False, Site: pi.Site, Detail: pi.Desc})
		}
	}
	e.paths = len(outs)
	if os.Getenv("VERIF_PROGRESS") != "" {
		fmt.Fprintf(os.Stderr, "  [%s] symbolic execution done: %d paths, %d obligations, %d feasibility queries, %.1fs\n", only, len(outs), len(e.obligs), e.feasQ, time.Since(t0).Seconds())
	}
	res.Paths, res.Forks, res.Merges, res.FeasQ = e.paths, e.forks, e.merges, e.feasQ
	res.Steps = e.totalSteps
	res.Funcs = sortedKeys(e.funcsSeen)
	res.Stubs = sortedKeys(e.stubsUsed)
	res.Nondets = e.nondetTy
	if e.conc != nil {
		e.conc.finish(e, res)
		if os.Getenv("VERIF_PROGRESS") != "" {
			fmt.Fprintf(os.Stderr, "  [%s] %d threads, %d events, %d schedule constraints, %d terms\n", only, len(e.conc.threads), len(e.conc.events), len(e.conc.phi), len(termList))
		}
	}
	solveAll(e, res, prop, timeout, meta, seed)
	res.Issues = e.issues
	res.Queries = e.solver.Queries
	res.SolverS += e.solver.Time.Seconds()
	res.Terms = len(termList)
	status := "ok"
	for _, is := range e.issues {
		if is.Kind == "unwind" || is.Kind == "deadlock" || is.Kind == "unsupported" {
			status = "inconclusive"
			res.Msg = is.Kind + ": " + is.Msg
		}
	}
	ncover := 0
	for _, o := range res.Obligations {
		switch {
		case o.Kind == "cover":
			ncover++
			if o.Res != "sat" {
				status = "inconclusive"
				res.Msg = "vacuity: cover point " + o.ID + " not reachable (" + o.Res + ")"
			}
		case o.Res == "unknown":
			if status == "ok" {
				status = "inconclusive"
				res.Msg = "not discharged: " + o.ID
			}
		}
	}
	if ncover == 0 && status == "ok" {
		status = "inconclusive"
		res.Msg = "vacuity: harness reached no cover point"
	}
	if len(res.ValidationNotes) > 0 && status == "ok" {
		// the natively compiled harness fails an assertion (or panics) on an input for which the encoding claims
		// that everything holds: the encoding cannot be trusted for this harness
		status = "inconclusive"
		res.Msg = "translator validation: " + res.ValidationNotes[0]
	}
	if len(res.Violations) > 0 {
		status = "violation"
	}
	res.Status = status
}

func (e *Exec) runInits(st *State, root *ssa.Package) {
	seen := map[*types.Package]bool{}
	var order []*ssa.Package
	var visit func(p *types.Package)
	visit = func(p *types.Package) {
		if seen[p] || !strings.HasPrefix(p.Path(), modPath) {
			return
		}
		seen[p] = true
		for _, imp := range p.Imports() {
			visit(imp)
		}
		if sp := e.prog.Package(p); sp != nil {
			order = append(order, sp)
		}
	}
	visit(root.Pkg)
	e.lenient = true
	defer func() { e.lenient = false }()
	for _, sp := range order {
		initFn := sp.Func("init")
		if initFn == nil || initFn.Blocks == nil {
			continue
		}
		func() {
			defer func() {
				if r := recover(); r != nil {
					if _, ok := asUnsupported(r); ok {
						debugf("init of %s aborted: %v", sp.Pkg.Path(), r)
						st.Frames = nil
						return
					}
					panic(r)
				}
			}()
			e.callValue(st, &Func{Fn: initFn}, nil, false, "init")
		}()
		st.Panicking = nil
		st.Frames = nil
	}
	st.Frames = nil
	st.PC = nil
	e.initContextGlobals(st)
}

// ---------------- parent ----------------

func main() {
	prop := flag.String("prop", "", "property id (C01..)")
	tier := flag.String("tier", envOr("VERIF_TIER", "quick"), "quick|thorough")
	only := flag.String("only", "", "run a single harness function")
	child := flag.String("child", "", "(internal) child mode: harness name")
	result := flag.String("result", "", "(internal) child result path")
	jobs := flag.Int("j", 0, "parallel harnesses")
	list := flag.Bool("list", false, "list harnesses")
	flag.Parse()
	seed, _ := strconv.Atoi(envOr("VERIF_SEED", "0"))
	if *prop == "" {
		fmt.Fprintln(os.Stderr, "usage: vengine -prop Cxx [-tier quick|thorough]")
		os.Exit(3)
	}
	if *child != "" {
		runChild(*prop, *tier, *child, *result, seed)
		return
	}
	os.Exit(runParent(*prop, *tier, *only, *jobs, *list, seed))
}

func srcHash(funcs []string) string {
	h := sha256.New()
	// hash of all non-test go files in the repo packages (cheap, regenerated each run)
	filepath.Walk(repoDir, func(p string, info os.FileInfo, err error) error {
		if err != nil {
			return nil
		}
		if info.IsDir() && (info.Name() == ".git" || info.Name() == "vendor") {
			return filepath.SkipDir
		}
		if strings.HasSuffix(p, ".go") && !strings.HasSuffix(p, "_test.go") {
			b, _ := os.ReadFile(p)
			h.Write([]byte(p))
			h.Write(b)
		}
		return nil
	})
	return fmt.Sprintf("%x", h.Sum(nil))[:16]
}

func runParent(prop, tier, only string, jobs int, list bool, seed int) int {
	t0 := time.Now()
	files, err := harnessFiles(prop)
	if err != nil {
		fmt.Fprintln(os.Stderr, "error:", err)
		return 3
	}
	_, pkgs, err := loadProgramTypesOnly(files)
	if err != nil {
		fmt.Fprintln(os.Stderr, "error: loading /repo with harness overlay failed:", err)
		writeEvidence(prop, tier, seed, nil, time.Since(t0).Seconds(), "load failure: "+err.Error())
		return 2
	}
	metas := findHarnesses(pkgs, files)
	var sel []HarnessMeta
	for _, m := range metas {
		if !strings.HasPrefix(m.Name, "Verif"+prop+"_") {
			continue // harness of another property sharing this file
		}
		if only != "" && m.Name != only {
			continue
		}
		if m.Tier == "off" {
			continue // kept in the tree for the record (see its doc comment) but not part of any registered check
		}
		if m.Tier == "thorough" && tier != "thorough" {
			continue
		}
		if m.Tier == "quick" && tier != "quick" {
			continue
		}
		sel = append(sel, m)
	}
	if list {
		for _, m := range sel {
			fmt.Println(m.Name, m.Pkg, m.Tier)
		}
		return 0
	}
	if jobs <= 0 {
		jobs = runtime.NumCPU()
		if jobs > 12 {
			jobs = 12
		}
	}
	outDir := filepath.Join(outBase(), prop)
	os.MkdirAll(outDir, 0o755)
	self, _ := os.Executable()
	results := make([]*HarnessResult, len(sel))
	var pmu sync.Mutex
	pgids := map[int]bool{}
	sigc := make(chan os.Signal, 1)
	signal.Notify(sigc, syscall.SIGTERM, syscall.SIGINT)
	go func() {
		<-sigc
		pmu.Lock()
		for p := range pgids {
			syscall.Kill(-p, syscall.SIGKILL)
		}
		pmu.Unlock()
		os.Exit(2)
	}()
	var wg sync.WaitGroup
	sem := make(chan struct{}, jobs)
	for i, m := range sel {
		wg.Add(1)
		go func(i int, m HarnessMeta) {
			defer wg.Done()
			sem <- struct{}{}
			defer func() { <-sem }()
			rp := filepath.Join(outDir, m.Name+".result.json")
			os.Remove(rp)
			cmd := exec.Command(self, "-prop", prop, "-tier", tier, "-child", m.Name, "-result", rp)
			cmd.Stderr = os.Stderr
			cmd.Stdout = os.Stderr
			cmd.Env = append(os.Environ(), "VERIF_TIER="+tier)
			cmd.SysProcAttr = &syscall.SysProcAttr{Setpgid: true}
			limit := 900 * time.Second
			if tier == "thorough" {
				limit = 5400 * time.Second
			}
			if v, e2 := strconv.Atoi(os.Getenv("VERIF_HARNESS_TIMEOUT")); e2 == nil && v > 0 {
				limit = time.Duration(v) * time.Second
			}
			err := cmd.Start()
			timedOut := false
			if err == nil {
				pmu.Lock()
				pgids[cmd.Process.Pid] = true
				pmu.Unlock()
				done := make(chan error, 1)
				go func() { done <- cmd.Wait() }()
				select {
				case err = <-done:
				case <-time.After(limit):
					timedOut = true
					syscall.Kill(-cmd.Process.Pid, syscall.SIGKILL)
					err = <-done
				}
			}
			r := &HarnessResult{Harness: m.Name, Pkg: m.Pkg, Status: "error"}
			if b, e2 := os.ReadFile(rp); e2 == nil {
				json.Unmarshal(b, r)
			} else if err != nil {
				r.Msg = "child failed: " + err.Error()
			}
			if timedOut {
				if len(r.Violations) > 0 {
					// a counterexample was found (and replayed where replayable) before the limit: it stands
					r.Status = "violation"
					r.Msg = fmt.Sprintf("harness wall-clock limit of %v exceeded after %d obligations; the violation found before that is reported", limit, len(r.Obligations))
				} else {
					r.Status = "inconclusive"
					r.Msg = fmt.Sprintf("harness wall-clock limit of %v exceeded (%d obligations decided before)", limit, len(r.Obligations))
				}
			} else if r.Status == "partial" {
				r.Status = "error"
				r.Msg = "child ended without a final result"
			}
			results[i] = r
		}(i, m)
	}
	wg.Wait()
	code := 0
	for _, r := range results {
		line := fmt.Sprintf("[%s] %-40s %-12s obligations=%d paths=%d wall=%.1fs solver=%.1fs %s", prop, r.Harness, r.Status, len(r.Obligations), r.Paths, r.WallS, r.SolverS, r.Msg)
		fmt.Println(line)
		for _, k := range r.Known {
			fmt.Println(k)
		}
		for _, v := range r.Violations {
			fmt.Println(v)
		}
		switch r.Status {
		case "violation":
			code = 1
		case "ok":
		default:
			if code == 0 {
				code = 2
			}
		}
	}
	if len(results) == 0 {
		fmt.Println("no harnesses selected")
		code = 3
	}
	if only == "" && os.Getenv("VERIF_NO_EVIDENCE") == "" { // single-harness runs and seeded-change trials do not replace the property's evidence
		writeEvidence(prop, tier, seed, results, time.Since(t0).Seconds(), "")
	}
	return code
}

func loadProgramTypesOnly(files []HarnessFile) (*ssa.Program, []*packages.Package, error) {
	pats := map[string]bool{}
	for _, f := range files {
		pats["./"+f.Pkg] = true
	}
	var ps []string
	for p := range pats {
		ps = append(ps, p)
	}
	sort.Strings(ps)
	cfg := &packages.Config{
		Mode:    packages.NeedName | packages.NeedFiles | packages.NeedCompiledGoFiles | packages.NeedSyntax,
		Dir:     repoDir,
		Overlay: overlayMap(files),
		Env:     append(os.Environ(), "GOFLAGS=-mod=mod", "GOPROXY=off", "GOSUMDB=off", "GOTOOLCHAIN=local"),
	}
	pkgs, err := packages.Load(cfg, ps...)
	if err != nil {
		return nil, nil, err
	}
	for _, p := range pkgs {
		for _, e := range p.Errors {
			return nil, nil, fmt.Errorf("%v", e)
		}
	}
	return nil, pkgs, nil
}
