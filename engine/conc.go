package main

import (
	"go/types"

	"golang.org/x/tools/go/ssa"
)

// placeholder; filled in by conc_*.go
type ConcCtx struct {
	cur *ThreadRec
}
type ThreadRec struct{ id int }
type ThreadCtx struct{}

func (t *ThreadCtx) clone() *ThreadCtx { return &ThreadCtx{} }
func mergeThreads(a, b *ThreadCtx, ca, cb *Term) (*ThreadCtx, bool) { return a, true }

func (c *ConcCtx) sideConstraints() []*Term { return nil }
func (c *ConcCtx) sharedStore(e *Exec, st *State, p Ptr, v Value, site string) bool { return false }
func (c *ConcCtx) sharedLoad(e *Exec, st *State, p Ptr, t types.Type, site string) (Value, bool) {
	return nil, false
}
func (c *ConcCtx) makeChan(id, size int) {}
func (c *ConcCtx) spawn(e *Exec, st *State, ct callTarget, site string) {}
func (c *ConcCtx) send(e *Exec, st *State, fr *Frame, x *ssa.Send, site string) []*State { return nil }
func (c *ConcCtx) selectOp(e *Exec, st *State, fr *Frame, x *ssa.Select, site string) []*State {
	return nil
}
func (c *ConcCtx) recv(e *Exec, st *State, fr *Frame, x *ssa.UnOp, site string) []*State { return nil }
func (c *ConcCtx) closeChan(e *Exec, st *State, ch ChanRef, site string) []Outcome { return nil }
func (c *ConcCtx) atomicOp(e *Exec, st *State, cell Ptr, method string, args []Value, toCell, fromCell func(Value) Value, site string) []Outcome {
	return nil
}
func (c *ConcCtx) mutexOp(e *Exec, st *State, p Ptr, rw bool, method, site string) []Outcome { return nil }
func (c *ConcCtx) syncMisc(e *Exec, st *State, fn *Func, name string, args []Value, site string) []Outcome {
	return nil
}

func newConc(e *Exec) *ConcCtx { return &ConcCtx{} }
func (c *ConcCtx) runMain(e *Exec, st *State, fn *ssa.Function) { fail("concurrency mode not built yet") }
func (c *ConcCtx) finish(e *Exec, res *HarnessResult) {}

func (c *ConcCtx) registerDeadline(e *Exec, st *State, p Ptr, d *Term) {}
func (c *ConcCtx) ctxCancel(e *Exec, st *State, p Ptr, site string) []Outcome { return ret(st) }
func (c *ConcCtx) ctxErr(e *Exec, st *State, ctx Value, site string) []Outcome   { return ret(st, Iface{}) }
