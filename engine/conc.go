package main

// Concurrency: every model thread is executed symbolically on its own; operations on synchronisation objects
// become EVENTS (with an integer clock variable) instead of effects, reads of shared cells return fresh symbolic
// values. The SMT encoding (partial-order BMC) relates the clocks: program order, spawn order, read-from for
// sequentially consistent atomics, mutual exclusion, wait-group / cond-var / channel / context wake-up conditions.
// One query then covers ALL interleavings of the bounded configuration.

import (
	"fmt"
	"go/types"
	"os"
	"path/filepath"
	"sort"
	"strings"
	"time"

	"golang.org/x/tools/go/ssa"
)

type Event struct {
	ID     int
	Thread int
	Kind   string
	Loc    string
	Guard  *Term
	Read   *Term // fresh value read (load / rmw / recv-ok ...)
	Write  *Term // value written (store / rmw)
	Val    *Term // auxiliary (wait-group delta, select choice ...)
	Pair   *Event
	Name   string
	Clk    *Term
	Site   string
	Aux    []*Event
	PVal   Value    // pstore: the (concrete-shaped) value stored into a tracked plain location
	PHeap  map[int]Value // pstore: the objects reachable from PVal as they were at the store (imported by readers that lack them)
	Ident  string   // pstore: pass-independent identity (thread name | site | occurrence)
	CandID []string // pload: identities of the stores this load may read from ("" = the location's initial zero value)
}

// storeRec: a store to a tracked reference-valued location as remembered from the previous exploration pass
type storeRec struct {
	ident, loc string
	val        Value
	heap       map[int]Value
}

// reachObjs collects the heap objects reachable from a value.
func reachObjs(v Value, heap map[int]Value, out map[int]Value) {
	obj := func(id int) {
		if id == 0 {
			return
		}
		if _, seen := out[id]; seen {
			return
		}
		c, ok := heap[id]
		if !ok {
			return
		}
		out[id] = c
		reachObjs(c, heap, out)
	}
	switch x := v.(type) {
	case Ptr:
		obj(x.Obj)
	case Slice:
		obj(x.Arr)
	case MapRef:
		obj(x.Obj)
	case *Struct:
		if x != nil {
			for _, f := range x.F {
				reachObjs(f, heap, out)
			}
		}
	case Struct:
		for _, f := range x.F {
			reachObjs(f, heap, out)
		}
	case Iface:
		reachObjs(x.V, heap, out)
	case *Func:
		if x != nil {
			for _, f := range x.Free {
				reachObjs(f, heap, out)
			}
			reachObjs(x.Bound, heap, out)
		}
	case *MapData:
		if x != nil {
			for i := range x.Keys {
				reachObjs(x.Keys[i], heap, out)
				reachObjs(x.Vals[i], heap, out)
			}
		}
	case MapData:
		for i := range x.Keys {
			reachObjs(x.Keys[i], heap, out)
			reachObjs(x.Vals[i], heap, out)
		}
	}
}

type ThreadRec struct {
	id      int
	name    string
	spawnEv *Event
	guard   *Term
	fn      Value
	args    []Value
	snap    *State
	finals  []*Term // path conditions of the terminal (returned) states
	panics  []*Term
	all     map[int]*Event
	site    string
	truncated bool
	leafPCs   []*Term // path conditions of paths cut at the unroll bound
	parent    *ThreadRec
	stable    string // pass-independent name: parent's name > spawn site # occurrence
}

// plainAcc: the plain (non-atomic) accesses of one thread to one memory location, as stamps (number of events
// emitted before the access); used to CHECK the modelling assumption that plain memory is not used to communicate
// between threads after a spawn (threads run on private copies of the spawner's heap).
type plainAcc struct {
	min, max int
	site     string
}

type ThreadCtx struct {
	rec    *ThreadRec
	events []*Event
	held   map[string][]*Event
	counts map[string]int // per-path occurrence counters (allocation / spawn / store sites): pass-independent names
}

func (t *ThreadCtx) bump(key string) int {
	if t.counts == nil {
		t.counts = map[string]int{}
	}
	t.counts[key]++
	return t.counts[key]
}

func (t *ThreadCtx) clone() *ThreadCtx {
	n := &ThreadCtx{rec: t.rec, events: append([]*Event(nil), t.events...), held: map[string][]*Event{}}
	for k, v := range t.held {
		n.held[k] = append([]*Event(nil), v...)
	}
	if t.counts != nil {
		n.counts = map[string]int{}
		for k, v := range t.counts {
			n.counts[k] = v
		}
	}
	return n
}

// mergeThreads: common prefix of events is shared; the tails are concatenated (each event carries its own
// absolute guard, so no re-guarding is needed).
func mergeThreads(a, b *ThreadCtx, ca, cb *Term) (*ThreadCtx, bool) {
	if a.rec != b.rec {
		return nil, false
	}
	i := 0
	for i < len(a.events) && i < len(b.events) && a.events[i] == b.events[i] {
		i++
	}
	n := &ThreadCtx{rec: a.rec, held: map[string][]*Event{}}
	if a.counts != nil || b.counts != nil {
		n.counts = map[string]int{}
		for k, v := range a.counts {
			n.counts[k] = v
		}
		for k, v := range b.counts {
			if v > n.counts[k] {
				n.counts[k] = v
			}
		}
	}
	n.events = append(n.events, a.events...)
	n.events = append(n.events, b.events[i:]...)
	// held locks must agree (same lock events); otherwise refuse the merge
	if len(a.held) != len(b.held) {
		// allow when both have only empty stacks
	}
	keys := map[string]bool{}
	for k := range a.held {
		keys[k] = true
	}
	for k := range b.held {
		keys[k] = true
	}
	for k := range keys {
		x, y := a.held[k], b.held[k]
		if len(x) != len(y) {
			return nil, false
		}
		for j := range x {
			if x[j] != y[j] {
				return nil, false
			}
		}
		n.held[k] = append([]*Event(nil), x...)
	}
	return n, true
}

type chanInfo struct {
	id   int
	cap  int
	kind string // "", "ticker", "timer", "done"
	ctx  Ptr
	aux  *Term // ticker period / timer delay
}

type ConcCtx struct {
	e        *Exec
	cur      *ThreadRec
	threads  []*ThreadRec
	queue    []*ThreadRec
	events   []*Event
	chans    map[int]*chanInfo
	inits    map[string]*Term // initial value per atomic location
	sorts    map[string]Sort
	phi      []*Term
	built    bool
	named    map[string]*Event
	place    map[string]*Term // placeholder vars referenced by harness assertions
	maxThreads int
	timeline []*Event
	doneChains map[int][]int
	prefix   bool
	selectAlts map[int][]*Event
	truncs   [][2]interface{} // (path condition, last event) of every path cut at the unroll bound
	phiPrefix []*Term
	stuck    *Term
	pstores  map[string]map[int]*plainAcc // loc -> thread id -> stores
	ploads   map[string]map[int]*plainAcc
	lockeys  map[string]string // concrete location -> pass-independent track key
}

func newConc(e *Exec) *ConcCtx {
	return &ConcCtx{e: e, chans: map[int]*chanInfo{}, inits: map[string]*Term{}, sorts: map[string]Sort{}, named: map[string]*Event{}, place: map[string]*Term{}, maxThreads: 40, doneChains: map[int][]int{}, selectAlts: map[int][]*Event{}}
}

func locKey(p Ptr) string { return fmt.Sprintf("%d%s", p.Obj, p.Path) }

func (c *ConcCtx) emit(st *State, kind, loc, site string) *Event {
	ev := &Event{ID: len(c.events), Thread: st.Thread.rec.id, Kind: kind, Loc: loc, Guard: st.PCTerm(), Site: site}
	ev.Clk = Var(fmt.Sprintf("clk!%d", ev.ID), IntSort)
	c.events = append(c.events, ev)
	st.Thread.events = append(st.Thread.events, ev)
	st.Thread.rec.all[ev.ID] = ev
	if len(c.events) > 4000 {
		fail("too many concurrency events")
	}
	return ev
}

// ---------- running threads ----------

func (c *ConcCtx) runMain(e *Exec, st *State, fn *ssa.Function) {
	main := &ThreadRec{id: 0, name: "main", stable: "main", guard: True, fn: &Func{Fn: fn}, snap: st, all: map[int]*Event{}}
	c.threads = append(c.threads, main)
	c.queue = append(c.queue, main)
	for len(c.queue) > 0 {
		t := c.queue[0]
		c.queue = c.queue[1:]
		c.runThread(e, t)
	}
	c.cur = nil
}

func (c *ConcCtx) runThread(e *Exec, t *ThreadRec) {
	c.cur = t
	st := t.snap
	st.Frames = nil
	st.Panicking = nil
	st.Thread = &ThreadCtx{rec: t, held: map[string][]*Event{}}
	if t.id != 0 {
		// thread-local path condition starts from the spawn guard
		st.PC = []*Term{t.guard}
		first := c.emit(st, "start", "", t.site)
		first.Pair = t.spawnEv
	}
	outs := e.callValue(st, t.fn, t.args, false, "thread "+t.name)
	for _, o := range outs {
		switch o.kind {
		case oReturn:
			end := c.emit(o.st, "end", "", "")
			_ = end
			t.finals = append(t.finals, o.st.PCTerm())
		case oPanic:
			t.panics = append(t.panics, o.st.PCTerm())
			pi := o.st.Panicking
			e.addOblig(&Obligation{ID: fmt.Sprintf("%s.nopanic.thread_%s", e.harness, t.name), Kind: "nopanic", PC: o.st.PCTerm(), Cond: False, Site: pi.Site, Detail: pi.Desc})
		}
	}
	e.paths += len(outs)
}

func (c *ConcCtx) spawn(e *Exec, st *State, ct callTarget, site string) {
	if ct.nilp {
		fail("go of nil function")
	}
	if len(c.threads) >= c.maxThreads {
		fail("too many model threads")
	}
	ev := c.emit(st, "spawn", "", site)
	snap := st.Clone()
	name := fmt.Sprintf("T%d", len(c.threads))
	if f, ok := ct.fn.(*Func); ok && f.Fn != nil {
		name += ":" + f.Fn.Name()
	}
	t := &ThreadRec{id: len(c.threads), name: name, spawnEv: ev, guard: st.PCTerm(), fn: ct.fn, args: ct.args, snap: snap, all: map[int]*Event{}, site: site, parent: st.Thread.rec}
	t.stable = fmt.Sprintf("%s>%s#%d", st.Thread.rec.stable, site, st.Thread.bump("spawn@"+site))
	c.threads = append(c.threads, t)
	c.queue = append(c.queue, t)
}

// ---------- atomics ----------

func (c *ConcCtx) atomicOp(e *Exec, st *State, cell Ptr, method string, args []Value, toCell, fromCell func(Value) Value, site string) []Outcome {
	loc := "a:" + locKey(cell)
	if _, ok := c.inits[loc]; !ok {
		iv := e.load(st, cell).(*Term)
		c.inits[loc] = iv
		c.sorts[loc] = iv.Sort
	}
	s := c.sorts[loc]
	switch method {
	case "Load":
		ev := c.emit(st, "load", loc, site)
		ev.Read = e.fresh("rd", s)
		return ret(st, fromCell(ev.Read))
	case "Store":
		ev := c.emit(st, "store", loc, site)
		ev.Write = toCell(args[0]).(*Term)
		return ret(st)
	case "Add":
		ev := c.emit(st, "rmw", loc, site)
		ev.Read = e.fresh("rd", s)
		ev.Write = BVBin("bvadd", ev.Read, args[0].(*Term))
		return ret(st, ev.Write)
	case "Swap":
		ev := c.emit(st, "rmw", loc, site)
		ev.Read = e.fresh("rd", s)
		ev.Write = toCell(args[0]).(*Term)
		return ret(st, fromCell(ev.Read))
	case "CompareAndSwap":
		ev := c.emit(st, "rmw", loc, site)
		ev.Read = e.fresh("rd", s)
		ok := Eq(ev.Read, toCell(args[0]).(*Term))
		ev.Write = Ite(ok, toCell(args[1]).(*Term), ev.Read)
		return ret(st, ok)
	}
	fail("atomic %s unsupported in concurrent mode", method)
	return nil
}

// ---------- mutexes ----------

func (c *ConcCtx) mutexOp(e *Exec, st *State, p Ptr, rw bool, method, site string) []Outcome {
	loc := "m:" + locKey(p)
	th := st.Thread
	switch method {
	case "Lock", "RLock":
		kind := "lock"
		if method == "RLock" {
			kind = "rlock"
		}
		ev := c.emit(st, kind, loc, site)
		th.held[loc+kind] = append(th.held[loc+kind], ev)
	case "Unlock", "RUnlock":
		kind, lk := "unlock", "lock"
		if method == "RUnlock" {
			kind, lk = "runlock", "rlock"
		}
		stack := th.held[loc+lk]
		if len(stack) == 0 {
			// unlock of a mutex locked by another thread (legal in Go, unusual): treat as error in the model
			return e.panicOut(st, e.runtimeError("sync: unlock of unlocked mutex (model: not locked by this thread)"), "unlock of unlocked mutex", site)
		}
		ev := c.emit(st, kind, loc, site)
		ev.Pair = stack[len(stack)-1]
		// a lock event shared by several paths can be released by a different unlock event on each of them
		lk0 := stack[len(stack)-1]
		lk0.Aux = append(lk0.Aux, ev)
		th.held[loc+lk] = stack[:len(stack)-1]
	default:
		fail("mutex method %s unsupported in concurrent mode", method)
	}
	return ret(st)
}

// ---------- WaitGroup / Cond ----------

func (c *ConcCtx) syncMisc(e *Exec, st *State, fn *Func, name string, args []Value, site string) []Outcome {
	switch name {
	case "sync.NewCond":
		ct := fn.Fn.Signature.Results().At(0).Type().(*types.Pointer).Elem()
		id := e.newObj(st, e.zero(ct))
		cs := ct.Underlying().(*types.Struct)
		for i := 0; i < cs.NumFields(); i++ {
			if cs.Field(i).Name() == "L" {
				e.store(st, Ptr{Obj: id, Path: pathAppend("", i)}, args[0])
			}
		}
		return ret(st, Ptr{Obj: id})
	case "(*sync.WaitGroup).Add":
		ev := c.emit(st, "wgadd", "w:"+locKey(args[0].(Ptr)), site)
		ev.Val = args[1].(*Term)
		return ret(st)
	case "(*sync.WaitGroup).Done":
		ev := c.emit(st, "wgadd", "w:"+locKey(args[0].(Ptr)), site)
		ev.Val = BVConst(^uint64(0), 64)
		return ret(st)
	case "(*sync.WaitGroup).Wait":
		c.emit(st, "wgwait", "w:"+locKey(args[0].(Ptr)), site)
		return ret(st)
	case "(*sync.Cond).Broadcast", "(*sync.Cond).Signal":
		c.emit(st, "broadcast", "c:"+locKey(args[0].(Ptr)), site)
		return ret(st)
	case "(*sync.Cond).Wait":
		cp := args[0].(Ptr)
		// find L
		ct := fn.Fn.Signature.Recv().Type().(*types.Pointer).Elem().Underlying().(*types.Struct)
		var lk Value
		for i := 0; i < ct.NumFields(); i++ {
			if ct.Field(i).Name() == "L" {
				lk = e.load(st, Ptr{Obj: cp.Obj, Path: pathAppend(cp.Path, i)})
			}
		}
		liv, ok := lk.(Iface)
		if !ok || liv.T == nil {
			fail("Cond.Wait with nil Locker")
		}
		mp := liv.V.(Ptr)
		// unlock . park . wake . lock
		if outs := c.mutexOp(e, st, mp, false, "Unlock", site); outs[0].kind == oPanic {
			return outs
		}
		park := st.Thread.events[len(st.Thread.events)-1]
		wake := c.emit(st, "condwake", "c:"+locKey(cp), site)
		wake.Pair = park
		c.mutexOp(e, st, mp, false, "Lock", site)
		return ret(st)
	}
	fail("%s unsupported in concurrent mode", name)
	return nil
}

// ---------- channels ----------

func (c *ConcCtx) makeChan(id, size int) {
	c.chans[id] = &chanInfo{id: id, cap: size}
}

func (c *ConcCtx) chanOf(ch ChanRef) *chanInfo {
	if ch.Obj == 0 {
		return nil
	}
	ci, ok := c.chans[ch.Obj]
	if !ok {
		ci = &chanInfo{id: ch.Obj}
		c.chans[ch.Obj] = ci
	}
	return ci
}

func (c *ConcCtx) closeChan(e *Exec, st *State, ch ChanRef, site string) []Outcome {
	if ch.Obj == 0 {
		return e.panicOut(st, e.runtimeError("close of nil channel"), "close of nil channel", site)
	}
	c.emit(st, "close", fmt.Sprintf("ch:%d", ch.Obj), site)
	return ret(st)
}

func (c *ConcCtx) send(e *Exec, st *State, fr *Frame, x *ssa.Send, site string) []*State {
	ch := e.eval(st, fr, x.Chan).(ChanRef)
	if ch.Obj == 0 {
		fail("send on nil channel blocks forever")
	}
	ev := c.emit(st, "send", fmt.Sprintf("ch:%d", ch.Obj), site)
	if v, ok := e.eval(st, fr, x.X).(*Term); ok {
		ev.Write = v
	}
	return []*State{st}
}

// recvEvent emits the event for a receive on ch and returns the received value.
func (c *ConcCtx) recvEvent(e *Exec, st *State, ch ChanRef, elem types.Type, site string) (Value, *Term) {
	if ch.Obj == 0 {
		// nil channel: blocks forever; the path ends here (recorded as blocked)
		ev := c.emit(st, "block", "", site)
		_ = ev
		st.Assume(False)
		return e.zero(elem), False
	}
	ci := c.chanOf(ch)
	ev := c.emit(st, "recv", fmt.Sprintf("ch:%d", ch.Obj), site)
	ev.Name = ci.kind
	okv := e.fresh("recvok", BoolSort)
	ev.Read = okv
	val := e.zero(elem)
	if t, ok := val.(*Term); ok && ci.kind == "" {
		// data value of a matched send (only scalar payloads are tracked)
		ev.Val = e.fresh("recvval", t.Sort)
		val = Ite(okv, ev.Val, t)
	}
	if ci.kind == "ticker" || ci.kind == "timer" {
		e.ghostLog(st, "recv."+ci.kind, StrConst(site))
		// payload: the tick's time stamp (arbitrary non-decreasing instant)
		val = timeVal(True, e.clockRead(st, "wall"))
	}
	return val, okv
}

func (c *ConcCtx) recv(e *Exec, st *State, fr *Frame, x *ssa.UnOp, site string) []*State {
	ch := e.eval(st, fr, x.X).(ChanRef)
	elem := x.X.Type().Underlying().(*types.Chan).Elem()
	val, ok := c.recvEvent(e, st, ch, elem, site)
	if st.PCTerm().IsFalse() {
		return nil
	}
	if x.CommaOk {
		fr.Env[x] = &Struct{[]Value{val, ok}}
	} else {
		fr.Env[x] = val
	}
	return []*State{st}
}

func (c *ConcCtx) selectOp(e *Exec, st *State, fr *Frame, x *ssa.Select, site string) []*State {
	// result tuple: (index int, recvOk bool, r_0 T_0, ... for each receive case)
	n := len(x.States)
	if fr.Visits == nil {
		fr.Visits = map[int]int{}
	}
	key := -1 - x.Block().Index
	fr.Visits[key]++
	if fr.Visits[key] > e.unroll {
		c.noteTruncation(st)
		e.issues = append(e.issues, Issue{"bound", fmt.Sprintf("select at %s executed more than %d times on one path: longer executions are outside the bound", site, e.unroll)})
		return nil
	}
	choice := e.fresh("select", BV(64))
	var outs []*State
	total := n
	if !x.Blocking {
		total = n + 1
	}
	for i := 0; i < total; i++ {
		s := st
		if i < total-1 {
			s = st.Clone()
		}
		s.Assume(Eq(choice, BVConst(uint64(i), 64)))
		sfr := s.Top()
		idx := i
		if i == n {
			idx = -1 // default case
		}
		vals := []Value{BVConst(uint64(int64(idx)), 64), False}
		var rok *Term = False
		for j, cs := range x.States {
			if cs.Dir == types.RecvOnly {
				elem := cs.Chan.Type().Underlying().(*types.Chan).Elem()
				if j == i {
					ch := e.eval(s, sfr, cs.Chan).(ChanRef)
					v, ok := c.recvEvent(e, s, ch, elem, site)
					rok = ok
					vals = append(vals, v)
					// the other receive cases of this select (a select blocks only if ALL its cases are blocked)
					me := s.Thread.events[len(s.Thread.events)-1]
					for j2, cs2 := range x.States {
						if j2 != i && cs2.Dir == types.RecvOnly {
							ch2 := e.eval(s, sfr, cs2.Chan).(ChanRef)
							if ch2.Obj != 0 {
								c.chanOf(ch2)
								c.selectAlts[me.ID] = append(c.selectAlts[me.ID], &Event{ID: -1, Kind: "recv", Loc: fmt.Sprintf("ch:%d", ch2.Obj), Thread: me.Thread})
							}
						}
					}
				} else {
					vals = append(vals, e.zero(elem))
				}
			} else if j == i {
				ch := e.eval(s, sfr, cs.Chan).(ChanRef)
				ev := c.emit(s, "send", fmt.Sprintf("ch:%d", ch.Obj), site)
				if v, ok := e.eval(s, sfr, cs.Send).(*Term); ok {
					ev.Write = v
				}
			}
		}
		if i == n {
			// default: allowed only when no case is ready -- modelled conservatively as always allowed
			c.emit(s, "selectdefault", "", site)
		}
		if s.PCTerm().IsFalse() {
			continue
		}
		vals[1] = rok
		sfr.Env[x] = &Struct{vals}
		outs = append(outs, s)
	}
	e.forks += len(outs) - 1
	return outs
}

// ---------- contexts ----------

func (c *ConcCtx) ctxCancel(e *Exec, st *State, p Ptr, site string) []Outcome {
	c.emit(st, "cancel", fmt.Sprintf("ctx:%d", p.Obj), site)
	return ret(st)
}

func (c *ConcCtx) registerDeadline(e *Exec, st *State, p Ptr, d *Term) {
	// the deadline is an environment action that may fire at any time after creation
	ev := c.emit(st, "mkdeadline", fmt.Sprintf("ctx:%d", p.Obj), "")
	ev.Val = d
}

// beyondHorizon: stated bound (//verif:horizon) - the modelled run is shorter than the horizon, so a context deadline
// with a constant timeout of at least that long does not fire within it (same rule as for tickers and timers)
func (c *ConcCtx) beyondHorizon(ev *Event) bool {
	hz := c.e.cfg["horizon"]
	if hz == "" || ev.Val == nil || !ev.Val.IsConst() {
		return false
	}
	var h int64
	fmt.Sscan(hz, &h)
	return h > 0 && ev.Val.SVal() >= h
}

// ctxChain returns the ctx object ids of ctx and its cancellable ancestors
func (c *ConcCtx) ctxChain(e *Exec, st *State, ctx Value) []int {
	var out []int
	for depth := 0; depth < 10; depth++ {
		iv, ok := ctx.(Iface)
		if !ok || iv.T == nil || !types.Identical(iv.T, e.ctxType()) {
			break
		}
		p := iv.V.(Ptr)
		out = append(out, p.Obj)
		ctx = e.objContent(st, p.Obj).(*Struct).F[cxParent]
	}
	return out
}

func (c *ConcCtx) ctxErr(e *Exec, st *State, ctx Value, site string) []Outcome {
	chain := c.ctxChain(e, st, ctx)
	if len(chain) == 0 {
		return ret(st, Iface{})
	}
	ev := c.emit(st, "ctxerr", "ctxs:"+joinInts(chain), site)
	ev.Read = e.fresh("cancelled", BoolSort)
	cp := e.prog.ImportedPackage("context")
	canc := e.load(st, Ptr{Obj: e.globalObj(cp.Var("Canceled"))}).(Iface)
	// nil unless cancelled (the distinction Canceled / DeadlineExceeded is not tracked in concurrent mode)
	return ret(st, Iface{T: canc.T, V: canc.V, NilIf: Not(ev.Read)})
}

func joinInts(xs []int) string {
	var parts []string
	for _, x := range xs {
		parts = append(parts, fmt.Sprint(x))
	}
	return strings.Join(parts, ",")
}

// Done() channel of a context: a channel of kind "done" bound to the ctx chain
func (c *ConcCtx) doneChan(e *Exec, st *State, ctxPtr Ptr) ChanRef {
	obj := e.objContent(st, ctxPtr.Obj).(*Struct)
	ch := obj.F[cxDone].(ChanRef)
	ci := c.chanOf(ch)
	ci.kind = "done"
	ci.ctx = ctxPtr
	c.doneChains[ch.Obj] = c.ctxChain(e, st, Iface{T: e.ctxType(), V: ctxPtr})
	return ch
}

// ---------- shared plain memory (not modelled; threads inherit the spawner's heap snapshot) ----------

func (c *ConcCtx) notePlain(m *map[string]map[int]*plainAcc, e *Exec, st *State, p Ptr, site string) {
	if st.Thread == nil {
		return
	}
	if c.lockeys == nil {
		c.lockeys = map[string]string{}
	}
	c.lockeys[locKey(p)] = c.trackKey(e, p)
	if *m == nil {
		*m = map[string]map[int]*plainAcc{}
	}
	loc := locKey(p)
	per := (*m)[loc]
	if per == nil {
		per = map[int]*plainAcc{}
		(*m)[loc] = per
	}
	stamp := len(c.events)
	a := per[st.Thread.rec.id]
	if a == nil {
		per[st.Thread.rec.id] = &plainAcc{min: stamp, max: stamp, site: site}
		return
	}
	if stamp > a.max {
		a.max = stamp
		a.site = site
	}
}

// trackKey: a pass-independent name for a plain memory location: the source position of the allocation of its
// object plus the field/index path ("" for objects not created by an Alloc instruction: never tracked).
func (c *ConcCtx) trackKey(e *Exec, p Ptr) string {
	site := e.objSite[p.Obj]
	if site == "" {
		return ""
	}
	return site + "#" + p.Path
}

func (c *ConcCtx) isTracked(e *Exec, p Ptr) bool {
	if len(e.track) == 0 {
		return false
	}
	key := c.trackKey(e, p)
	if key == "" {
		return false
	}
	if e.track[key] {
		return true
	}
	site := e.objSite[p.Obj]
	for k := range e.track {
		if strings.HasPrefix(k, site+"#") {
			kp := k[len(site)+1:]
			if strings.HasPrefix(kp, p.Path+"/") || strings.HasPrefix(p.Path, kp+"/") || p.Path == "" || kp == "" {
				fail("access at %s overlaps the tracked shared location %s (whole-value access to a shared struct is not modelled)", key, k)
			}
		}
	}
	return false
}

func zeroOfSort(srt Sort) *Term {
	switch srt.K {
	case SBool:
		return False
	case SBV:
		return BVConst(0, srt.W)
	case SFP:
		return FPConst(0)
	case SString:
		return StrConst("")
	case SInt:
		return IntConst(0)
	case SReal:
		return RealConst("0.0")
	}
	return nil
}

// sharedStore: a store to a TRACKED plain location (one through which threads were seen to communicate in the
// previous pass) is an event carrying its value; the thread's private copy is updated as well. Term-valued
// locations (numbers, booleans, strings) are sequentially consistent cells exactly like atomics; reference-valued
// ones (channels, pointers, functions ...) carry the concrete-shaped value and are chosen by the loads.
func (c *ConcCtx) sharedStore(e *Exec, st *State, p Ptr, v Value, site string) bool {
	if st.Thread == nil {
		return false
	}
	if c.isTracked(e, p) {
		if t, ok := v.(*Term); ok {
			loc := "a:pl:" + locKey(p)
			if _, ok := c.inits[loc]; !ok {
				z := zeroOfSort(t.Sort)
				if z == nil {
					fail("shared plain location of unsupported sort at %s", site)
				}
				c.inits[loc], c.sorts[loc] = z, t.Sort
			}
			ev := c.emit(st, "store", loc, site)
			ev.Write = t
			return false
		}
		ev := c.emit(st, "pstore", "p:"+locKey(p), site)
		ev.PVal = v
		ev.PHeap = map[int]Value{}
		reachObjs(v, st.Heap, ev.PHeap)
		ev.Ident = fmt.Sprintf("%s|%s|%d", st.Thread.rec.stable, site, st.Thread.bump("pstore@"+site))
		return false
	}
	c.notePlain(&c.pstores, e, st, p, site)
	return false
}

func termSortOf(t types.Type) (Sort, bool) {
	b, ok := t.Underlying().(*types.Basic)
	if !ok {
		return Sort{}, false
	}
	switch {
	case b.Info()&types.IsBoolean != 0:
		return BoolSort, true
	case b.Info()&types.IsString != 0:
		return StringSort, true
	case b.Info()&types.IsFloat != 0:
		return Sort{}, false
	case b.Info()&types.IsInteger != 0:
		if mathInts {
			return Sort{}, false
		}
		switch b.Kind() {
		case types.Int8, types.Uint8:
			return BV(8), true
		case types.Int16, types.Uint16:
			return BV(16), true
		case types.Int32, types.Uint32:
			return BV(32), true
		default:
			return BV(64), true
		}
	}
	return Sort{}, false
}

// sharedLoad: a load from a tracked plain location. Term-valued: a fresh value constrained by read-from (as for
// atomics). Reference-valued: forks over the stores it may read from (identities known from the previous pass, those
// discovered so far in this pass, the thread's own ones on this path, or the initial zero value); the choice is a
// path-condition literal and the read-from constraint is added when the encoding is built. Identities discovered
// only later are detected in missedCandidates and lead to another pass.
func (c *ConcCtx) sharedLoad(e *Exec, st *State, p Ptr, t types.Type, site string, bind func(*State, Value)) ([]*State, bool) {
	if st.Thread == nil {
		return nil, false
	}
	if t == nil || !c.isTracked(e, p) {
		c.notePlain(&c.ploads, e, st, p, site)
		return nil, false
	}
	if srt, ok := termSortOf(t); ok {
		loc := "a:pl:" + locKey(p)
		if _, ok := c.inits[loc]; !ok {
			c.inits[loc], c.sorts[loc] = zeroOfSort(srt), srt
		}
		if c.sorts[loc] != srt {
			fail("shared plain location accessed with two sorts at %s", site)
		}
		ev := c.emit(st, "load", loc, site)
		ev.Read = e.fresh("rd", srt)
		bind(st, ev.Read)
		return []*State{st}, true
	}
	loc := "p:" + locKey(p)
	ids := []string{""}
	vals := []Value{e.zero(t)}
	heaps := []map[int]Value{nil}
	seen := map[string]bool{}
	addC := func(id string, v Value, h map[int]Value) {
		if !seen[id] {
			seen[id] = true
			ids = append(ids, id)
			vals = append(vals, v)
			heaps = append(heaps, h)
		}
	}
	ownPrefix := st.Thread.rec.stable + "|"
	pcset := map[*Term]bool{}
	var addPC func(t *Term)
	addPC = func(t *Term) {
		pcset[t] = true
		if t.Op == "and" {
			for _, a := range t.Args {
				addPC(a)
			}
		}
	}
	for _, t := range st.PC {
		addPC(t)
	}
	var holds func(g *Term) bool // the guard of an own earlier event certainly holds on this path
	holds = func(g *Term) bool {
		if g.IsTrue() || pcset[g] {
			return true
		}
		if g.Op == "and" {
			for _, a := range g.Args {
				if !holds(a) {
					return false
				}
			}
			return true
		}
		return false
	}
	for _, ev := range st.Thread.events {
		if ev.Kind == "pstore" && ev.Loc == loc {
			if holds(ev.Guard) {
				// this own store certainly precedes the load: the initial value and earlier own stores are overwritten
				ids, vals, heaps, seen = nil, nil, nil, map[string]bool{}
			}
			addC(ev.Ident, ev.PVal, nil)
		}
	}
	for _, ev := range c.events {
		if ev.Kind == "pstore" && ev.Loc == loc && ev.Thread != st.Thread.rec.id {
			addC(ev.Ident, ev.PVal, ev.PHeap)
		}
	}
	for _, r := range prevStores[loc] {
		if !strings.HasPrefix(r.ident, ownPrefix) {
			addC(r.ident, r.val, r.heap)
		}
	}
	r := c.emit(st, "pload", loc, site)
	r.CandID = ids
	r.Val = Var(fmt.Sprintf("from!%d", r.ID), IntSort)
	if os.Getenv("VERIF_HAZARD") != "" {
		fmt.Fprintf(os.Stderr, "pload #%d %s thread %s at %s: candidates %q\n", r.ID, loc, st.Thread.rec.name, site, ids)
	}
	var out []*State
	for k := range ids {
		s := st
		if k < len(ids)-1 {
			s = st.Clone()
		}
		s.Assume(Eq(r.Val, IntConst(int64(k))))
		for id, content := range heaps[k] {
			// objects the storing thread created after this thread's snapshot: imported as they were at the store
			if _, ok := s.Heap[id]; !ok {
				s.Heap[id] = content
			}
		}
		bind(s, vals[k])
		out = append(out, s)
	}
	e.forks += len(ids) - 1
	return out, true
}

// prevStores: the reference-valued stores of the previous exploration pass, per location (object ids are
// pass-independent in tracking passes, see Exec.newObj)
var prevStores = map[string][]storeRec{}

// encodePlain: read-from constraints of the tracked reference-valued locations (sequentially consistent, like
// atomics, but the value is selected by the load's choice variable because it is not a term).
func (c *ConcCtx) encodePlain(loc string, evs []*Event, add func(*Term)) {
	var writes []*Event
	for _, ev := range evs {
		if ev.Kind == "pstore" {
			writes = append(writes, ev)
		}
	}
	for _, w := range writes {
		for _, o := range evs {
			if o != w && o.Thread != w.Thread && !(o.Kind == "pstore" && o.ID < w.ID) {
				add(Not(Eq(w.Clk, o.Clk)))
			}
		}
	}
	for _, r := range evs {
		if r.Kind != "pload" {
			continue
		}
		var opts []*Term
		for k, id := range r.CandID {
			sel := Eq(r.Val, IntConst(int64(k)))
			if id == "" {
				conj := []*Term{sel}
				for _, w2 := range writes {
					conj = append(conj, Or(Not(c.gd(w2)), lt(r.Clk, w2.Clk)))
				}
				opts = append(opts, And(conj...))
				continue
			}
			for _, w := range writes {
				if w.Ident != id {
					continue
				}
				conj := []*Term{sel, c.gd(w), lt(w.Clk, r.Clk)}
				for _, w2 := range writes {
					if w2 != w {
						conj = append(conj, Or(Not(c.gd(w2)), lt(w2.Clk, w.Clk), lt(r.Clk, w2.Clk)))
					}
				}
				opts = append(opts, And(conj...))
			}
		}
		add(Implies(c.gd(r), Or(opts...)))
	}
}

// missedCandidates: a tracked load that was explored before a store of another thread to the same location was known
// could not choose it; unless that store necessarily comes after the load (its thread was spawned by the loading
// thread after the load), executions would be lost. The caller runs another pass with the stores of this one.
func (c *ConcCtx) missedCandidates() []string {
	var out []string
	for _, r := range c.events {
		if r.Kind != "pload" {
			continue
		}
		have := map[string]bool{}
		for _, id := range r.CandID {
			have[id] = true
		}
		for _, w := range c.events {
			if w.Kind != "pstore" || w.Loc != r.Loc || w.Thread == r.Thread || have[w.Ident] {
				continue
			}
			if sp := spawnOnLineage(c.threads[r.Thread], c.threads[w.Thread]); sp >= r.ID {
				continue
			}
			out = append(out, fmt.Sprintf("load at %s (thread %s) was explored before the store at %s (thread %s) was known", r.Site, c.threads[r.Thread].name, w.Site, c.threads[w.Thread].name))
		}
	}
	return out
}

// rememberStores: hands this pass's reference-valued stores to the next pass.
func (c *ConcCtx) rememberStores() {
	prevStores = map[string][]storeRec{}
	for _, w := range c.events {
		if w.Kind == "pstore" {
			prevStores[w.Loc] = append(prevStores[w.Loc], storeRec{w.Ident, w.Loc, w.PVal, w.PHeap})
		}
	}
}

// spawnOnLineage: the ID of the spawn event executed by ancestor anc on the way to thread t (-1: not an ancestor).
func spawnOnLineage(anc, t *ThreadRec) int {
	for x := t; x != nil && x.parent != nil; x = x.parent {
		if x.parent == anc {
			return x.spawnEv.ID
		}
	}
	return -1
}

// plainHazards lists the locations through which a thread could observe a plain store of ANOTHER thread that is
// not part of its heap snapshot (the store is not by an ancestor before the spawn, and the load is not by an
// ancestor before it spawned the storing thread). Such communication is outside the model: the harness result is
// then inconclusive rather than trusted.
func (c *ConcCtx) plainHazards() (out []string, keys map[string]bool, untrackable bool) {
	keys = map[string]bool{}
	var locs []string
	for loc := range c.pstores {
		locs = append(locs, loc)
	}
	sort.Strings(locs)
	for _, loc := range locs {
		lds := c.ploads[loc]
		for a, sa := range c.pstores[loc] {
			for b, lb := range lds {
				if a == b {
					continue
				}
				A, B := c.threads[a], c.threads[b]
				if sp := spawnOnLineage(A, B); sp >= 0 && sa.max <= sp {
					continue // stored before the spawn: part of B's snapshot
				}
				if sp := spawnOnLineage(B, A); sp >= 0 && lb.max <= sp {
					continue // loaded before the storing thread existed
				}
				out = append(out, fmt.Sprintf("%s: stored by thread %s at %s, loaded by thread %s at %s", loc, A.name, sa.site, B.name, lb.site))
				if k := c.lockeys[loc]; k != "" {
					keys[k] = true
				} else {
					untrackable = true
				}
			}
		}
	}
	sort.Strings(out)
	return
}

// ---------- encoding ----------

// gd: the condition under which an event takes part in the execution being encoded: its path guard for complete
// executions, its "executed in the prefix" flag for the deadlock (prefix) encoding.
func (c *ConcCtx) gd(ev *Event) *Term {
	if c.prefix {
		return c.xvar(ev)
	}
	return ev.Guard
}

func (c *ConcCtx) xvar(ev *Event) *Term { return Var(fmt.Sprintf("x!%d", ev.ID), BoolSort) }

// tm: real (wall-clock) time of an event in nanoseconds; only constrained for timed events (see encodeTime)
func (c *ConcCtx) tm(ev *Event) *Term { return Var(fmt.Sprintf("tm!%d", ev.ID), IntSort) }

func durInt(d *Term) *Term {
	if d.IsConst() {
		return IntConst(d.SVal())
	}
	if d.Sort.K == SInt {
		return d
	}
	neg := BVCmp("bvslt", d, BVConst(0, d.Sort.W))
	return Ite(neg, App("-", IntSort, App("bv2nat", IntSort, BVNeg(d))), App("bv2nat", IntSort, d))
}

// encodeTime: real time is monotone along the clock order of timed events
func (c *ConcCtx) encodeTime(add func(*Term)) {
	var timed []*Event
	for _, ev := range c.events {
		switch ev.Kind {
		case "arm", "stoptimer", "ghost":
			timed = append(timed, ev)
		case "recv":
			if ev.Name == "ticker" || ev.Name == "timer" {
				timed = append(timed, ev)
			}
		}
	}
	// same thread: creation order is program order; different threads: ordered like their clocks
	last := map[int]*Event{}
	for _, a := range timed {
		add(App("<=", BoolSort, IntConst(0), c.tm(a)))
		if p, ok := last[a.Thread]; ok {
			add(App("<=", BoolSort, c.tm(p), c.tm(a)))
		}
		last[a.Thread] = a
	}
	for i, a := range timed {
		for _, b := range timed[i+1:] {
			if a.Thread == b.Thread {
				continue
			}
			add(Implies(lt(a.Clk, b.Clk), App("<=", BoolSort, c.tm(a), c.tm(b))))
			add(Implies(lt(b.Clk, a.Clk), App("<=", BoolSort, c.tm(b), c.tm(a))))
		}
	}
}


func lt(a, b *Term) *Term { return App("<", BoolSort, a, b) }

func (c *ConcCtx) sideConstraints() []*Term {
	if !c.built {
		return nil
	}
	return c.phi
}

func (c *ConcCtx) finish(e *Exec, res *HarnessResult) {
	c.build(e)
	if e.cfg["deadlock"] != "" {
		c.buildPrefix(e)
		e.addOblig(&Obligation{ID: e.harness + ".no_deadlock_or_lost_wakeup", Kind: "deadlock", PC: True, Cond: True, Raw: append(append([]*Term(nil), c.phiPrefix...), c.stuck), NoReplay: true,
			Site: "all threads", Detail: "a reachable prefix in which some thread is blocked forever and no thread can take a step"})
	}
	res.Events = len(c.events)
	res.Threads = len(c.threads)
	res.Bounds["threads"] = fmt.Sprint(len(c.threads))
	res.Bounds["events"] = fmt.Sprint(len(c.events))
}

func (c *ConcCtx) build(e *Exec) {
	var phi []*Term
	add := func(t *Term) {
		if !t.IsTrue() {
			phi = append(phi, t)
		}
	}
	// 1. program order inside each thread (chain along each terminal event list = union: we use creation order per thread)
	byThread := map[int][]*Event{}
	for _, ev := range c.events {
		byThread[ev.Thread] = append(byThread[ev.Thread], ev)
	}
	// creation order within a thread is consistent with program order on every path (events of different
	// paths are never both executed), so a single chain per thread suffices
	for _, evs := range byThread {
		for i := 1; i < len(evs); i++ {
			add(lt(evs[i-1].Clk, evs[i].Clk))
		}
	}
	// 2. spawn before start; thread completion
	for _, t := range c.threads {
		if t.spawnEv != nil {
			first := byThread[t.id][0]
			add(lt(t.spawnEv.Clk, first.Clk))
		}
		// every spawned thread runs to completion along one of its paths (quiescent executions)
		// (a path that ends in an escaping panic is a way of finishing too: otherwise the thread's no-panic obligations
		// would be vacuous - its path condition contradicting this constraint)
		ends := append(append([]*Term(nil), t.finals...), t.panics...)
		if len(ends) == 0 {
			add(Not(t.guard)) // the thread can never finish within the bounds: executions spawning it are excluded
			e.issues = append(e.issues, Issue{"bound", fmt.Sprintf("thread %s has no completing path within the unroll bound", t.name)})
		} else {
			add(Implies(t.guard, Or(ends...)))
		}
	}
	// group events by location
	byLoc := map[string][]*Event{}
	for _, ev := range c.events {
		if ev.Loc != "" {
			byLoc[ev.Loc] = append(byLoc[ev.Loc], ev)
		}
	}
	locs := make([]string, 0, len(byLoc))
	for l := range byLoc {
		locs = append(locs, l)
	}
	sort.Strings(locs)
	for _, loc := range locs {
		evs := byLoc[loc]
		switch loc[0] {
		case 'a':
			c.encodeAtomic(loc, evs, add)
		case 'p':
			c.encodePlain(loc, evs, add)
		case 'm':
			c.encodeMutex(evs, add)
		case 'w':
			c.encodeWaitGroup(evs, add)
		}
	}
	c.encodeCond(byLoc, add)
	c.encodeChans(e, byLoc, add)
	c.encodeCtx(e, byLoc, add)
	if e.cfg["timers"] == "real" {
		c.encodeTime(add)
	}
	// named ghost events -> placeholders
	for name, v := range c.place {
		parts := strings.SplitN(name, "@", 2)
		ev := c.named[parts[1]]
		if ev == nil && strings.HasSuffix(parts[1], "[0]") {
			ev = c.named[strings.TrimSuffix(parts[1], "[0]")]
		}
		var alts []*Event
		if ev != nil {
			alts = append(append(alts, ev.Aux...), ev)
		}
		switch parts[0] {
		case "clk":
			for _, a := range alts {
				add(Implies(a.Guard, Eq(v, a.Clk)))
			}
		case "time":
			for _, a := range alts {
				add(Implies(a.Guard, Eq(v, c.tm(a))))
			}
		case "exec":
			var gs []*Term
			for _, a := range alts {
				gs = append(gs, a.Guard)
			}
			add(Eq(v, Or(gs...)))
		}
	}
	c.phi = phi
	c.built = true
	if os.Getenv("VERIF_CONCDEBUG") != "" {
		// find the first conjunct prefix that is unsatisfiable (debug aid)
		lo, hi := 0, len(phi)
		r, _ := e.solver.Check(phi, 60000, false)
		fmt.Fprintf(os.Stderr, "conc debug: %d constraints, all together: %s\n", len(phi), r)
		if k := os.Getenv("VERIF_CONCDEBUG_EV"); k != "" {
			for _, ev := range c.events {
				if ev.Kind != k {
					continue
				}
				// which constraints (minimal prefix-deletion set) forbid this event from executing?
				r, _ := e.solver.Check(append([]*Term{ev.Guard}, phi...), 60000, false)
				fmt.Fprintf(os.Stderr, "conc debug: event %d (%s %s) executable: %s\n", ev.ID, ev.Kind, ev.Site, r)
				if r == "unsat" {
					keep := append([]*Term(nil), phi...)
					for i := 0; i < len(keep); {
						try := append(append([]*Term{ev.Guard}, keep[:i]...), keep[i+1:]...)
						rr, _ := e.solver.Check(try, 60000, false)
						if rr == "unsat" {
							keep = append(keep[:i:i], keep[i+1:]...)
						} else {
							i++
						}
					}
					for _, t := range keep {
						fmt.Fprintf(os.Stderr, "   core: %s\n", t.str(7))
					}
				}
				break
			}
		}
		if r == "unsat" {
			for lo < hi {
				mid := (lo + hi) / 2
				r, _ := e.solver.Check(phi[:mid+1], 60000, false)
				if r == "unsat" {
					hi = mid
				} else {
					lo = mid + 1
				}
			}
			fmt.Fprintf(os.Stderr, "conc debug: first unsat prefix ends at constraint %d: %s\n", lo, phi[lo].str(8))
		}
	}
}

func (c *ConcCtx) encodeAtomic(loc string, evs []*Event, add func(*Term)) {
	init := c.inits[loc]
	var writes, reads []*Event
	for _, ev := range evs {
		if ev.Write != nil {
			writes = append(writes, ev)
		}
		if ev.Read != nil {
			reads = append(reads, ev)
		}
	}
	// distinct clocks among conflicting accesses (writes vs everything)
	for i, w := range writes {
		for _, o := range evs {
			if o == w {
				continue
			}
			if o.Write != nil && o.ID < w.ID {
				continue // pair handled once
			}
			_ = i
			if o.Thread == w.Thread {
				continue
			}
			add(Not(Eq(w.Clk, o.Clk)))
		}
	}
	for _, r := range reads {
		var opts []*Term
		// read from init: no executed write before r
		var none []*Term
		for _, w := range writes {
			if w == r {
				continue
			}
			none = append(none, Or(Not(c.gd(w)), lt(r.Clk, w.Clk)))
		}
		opts = append(opts, And(append(none, Eq(r.Read, init))...))
		for _, w := range writes {
			if w == r {
				continue
			}
			conj := []*Term{c.gd(w), lt(w.Clk, r.Clk), Eq(r.Read, w.Write)}
			for _, w2 := range writes {
				if w2 == w || w2 == r {
					continue
				}
				conj = append(conj, Or(Not(c.gd(w2)), lt(w2.Clk, w.Clk), lt(r.Clk, w2.Clk)))
			}
			opts = append(opts, And(conj...))
		}
		add(Implies(c.gd(r), Or(opts...)))
	}
}

type section struct {
	lock    *Event
	unlocks []*Event
	reader  bool
}

func (c *ConcCtx) encodeMutex(evs []*Event, add func(*Term)) {
	var secs []section
	for _, ev := range evs {
		if ev.Kind == "lock" || ev.Kind == "rlock" {
			secs = append(secs, section{lock: ev, unlocks: ev.Aux, reader: ev.Kind == "rlock"})
		}
	}
	for i := 0; i < len(secs); i++ {
		for j := i + 1; j < len(secs); j++ {
			a, b := secs[i], secs[j]
			if a.reader && b.reader {
				continue
			}
			if a.lock.Thread == b.lock.Thread {
				continue // ordered by program order (self-deadlock is checked by the deadlock query)
			}
			both := And(c.gd(a.lock), c.gd(b.lock))
			before := func(x, y section) *Term {
				var opts []*Term
				for _, u := range x.unlocks {
					opts = append(opts, And(c.gd(u), lt(u.Clk, y.lock.Clk)))
				}
				return Or(opts...)
			}
			aBeforeB, bBeforeA := before(a, b), before(b, a)
			add(Implies(both, Or(aBeforeB, bBeforeA)))
		}
	}
}

func (c *ConcCtx) encodeWaitGroup(evs []*Event, add func(*Term)) {
	var adds, waits []*Event
	for _, ev := range evs {
		if ev.Kind == "wgadd" {
			adds = append(adds, ev)
		} else if ev.Kind == "wgwait" {
			waits = append(waits, ev)
		}
	}
	for _, w := range waits {
		var sum *Term = IntConst(0)
		for _, a := range adds {
			d := a.Val
			var di *Term
			if d.IsConst() {
				di = IntConst(d.SVal())
			} else if d.Sort.K == SInt {
				di = d
			} else {
				// signed interpretation of the delta
				neg := BVCmp("bvslt", d, BVConst(0, d.Sort.W))
				di = Ite(neg, App("-", IntSort, App("bv2nat", IntSort, BVNeg(d))), App("bv2nat", IntSort, d))
			}
			sum = App("+", IntSort, sum, Ite(And(c.gd(a), lt(a.Clk, w.Clk)), di, IntConst(0)))
			if a.Thread != w.Thread {
				add(Not(Eq(a.Clk, w.Clk)))
			}
		}
		add(Implies(c.gd(w), Eq(sum, IntConst(0))))
	}
}

func (c *ConcCtx) encodeCond(byLoc map[string][]*Event, add func(*Term)) {
	for loc, evs := range byLoc {
		if loc[0] != 'c' || loc[1] != ':' {
			continue
		}
		var bcs, wakes []*Event
		for _, ev := range evs {
			if ev.Kind == "broadcast" {
				bcs = append(bcs, ev)
			} else if ev.Kind == "condwake" {
				wakes = append(wakes, ev)
			}
		}
		for _, w := range wakes {
			park := w.Pair // the unlock event that starts the wait
			var opts []*Term
			for _, b := range bcs {
				if b.Thread == w.Thread {
					continue
				}
				opts = append(opts, And(c.gd(b), lt(park.Clk, b.Clk), lt(b.Clk, w.Clk)))
			}
			add(Implies(c.gd(w), Or(opts...)))
		}
	}
}

func (c *ConcCtx) encodeChans(e *Exec, byLoc map[string][]*Event, add func(*Term)) {
	for loc, evs := range byLoc {
		if !strings.HasPrefix(loc, "ch:") {
			continue
		}
		var id int
		fmt.Sscanf(loc, "ch:%d", &id)
		ci := c.chans[id]
		var sends, recvs, closes []*Event
		for _, ev := range evs {
			switch ev.Kind {
			case "send":
				sends = append(sends, ev)
			case "recv":
				recvs = append(recvs, ev)
			case "close":
				closes = append(closes, ev)
			}
		}
		if ci != nil && (ci.kind == "ticker" || ci.kind == "timer") {
			// environment-driven: a receive may complete at any time after the ticker/timer was armed and before
			// it is stopped (late or dropped ticks are allowed); a timer delivers at most once
			var stops, arms []*Event
			for _, ev := range evs {
				if ev.Kind == "stoptimer" {
					stops = append(stops, ev)
				} else if ev.Kind == "arm" {
					arms = append(arms, ev)
				}
			}
			realTime := c.e.cfg["timers"] == "real"
			for i, r := range recvs {
				var armed []*Term
				for _, a := range arms {
					if hz := c.e.cfg["horizon"]; hz != "" && a.Val != nil && a.Val.IsConst() {
						// stated bound: the modelled execution is shorter than the horizon, so a ticker/timer whose
						// period/delay is at least that long does not deliver within it
						var h int64
						fmt.Sscan(hz, &h)
						if h > 0 && a.Val.SVal() >= h {
							continue
						}
					}
					conj := []*Term{c.gd(a), lt(a.Clk, r.Clk)}
					if !realTime {
						// idealised: a value is only delivered while the timer is armed (no stop in between); real
						// elapsed time is not modelled
						for _, s := range stops {
							conj = append(conj, Or(Not(c.gd(s)), lt(s.Clk, a.Clk), lt(r.Clk, s.Clk)))
						}
					} else {
						// Go <= 1.22 semantics with real time: the timer fires at arm-time + delay unless it was
						// stopped or re-armed BEFORE that instant; the fired value stays in the channel buffer
						// (also across a later Stop / Reset) until it is received
						fire := App("+", IntSort, c.tm(a), durInt(a.Val))
						conj = append(conj, App("<=", BoolSort, fire, c.tm(r)))
						for _, s := range stops {
							conj = append(conj, Or(Not(c.gd(s)), lt(s.Clk, a.Clk), App("<=", BoolSort, fire, c.tm(s))))
						}
						for _, a2 := range arms {
							if a2 != a {
								conj = append(conj, Or(Not(c.gd(a2)), lt(a2.Clk, a.Clk), App("<=", BoolSort, fire, c.tm(a2))))
							}
						}
						if ci.kind == "ticker" && a.Val.IsConst() {
							// k-th tick not before arm-time + k * period
							cnt := IntConst(1)
							for j, r2 := range recvs {
								if j != i {
									cnt = App("+", IntSort, cnt, Ite(And(c.gd(r2), lt(a.Clk, r2.Clk), lt(r2.Clk, r.Clk)), IntConst(1), IntConst(0)))
								}
							}
							conj = append(conj, App("<=", BoolSort, App("+", IntSort, c.tm(a), App("*", IntSort, IntConst(a.Val.SVal()), cnt)), c.tm(r)))
						}
					}
					if ci.kind == "timer" {
						// one delivery per arming: no other receive between this arming and r
						for j, r2 := range recvs {
							if j != i {
								conj = append(conj, Or(Not(c.gd(r2)), lt(r2.Clk, a.Clk), lt(r.Clk, r2.Clk)))
							}
						}
					}
					armed = append(armed, And(conj...))
				}
				add(Implies(c.gd(r), And(r.Read, Or(armed...))))
			}
			continue
		}
		if ci != nil && ci.kind == "done" {
			continue // handled with contexts
		}
		// ordinary channel: a receive completes either matched with a distinct send (ok = true) or after a close
		for ri, r := range recvs {
			var opts []*Term
			for _, s := range sends {
				if s.Thread == r.Thread {
					continue
				}
				m := Var(fmt.Sprintf("match!%d!%d", r.ID, s.ID), BoolSort)
				conj := []*Term{m, c.gd(s), r.Read}
				if ci != nil && ci.cap > 0 {
					conj = append(conj, lt(s.Clk, r.Clk))
				} else {
					// rendezvous: the send completes when the receive takes it; model as send just before receive
					conj = append(conj, lt(s.Clk, r.Clk))
				}
				if r.Val != nil && s.Write != nil && r.Val.Sort == s.Write.Sort {
					conj = append(conj, Eq(r.Val, s.Write))
				}
				// a send is matched by at most one receive
				for rj, r2 := range recvs {
					if rj != ri {
						conj = append(conj, Not(Var(fmt.Sprintf("match!%d!%d", r2.ID, s.ID), BoolSort)))
					}
				}
				opts = append(opts, And(conj...))
			}
			for _, cl := range closes {
				opts = append(opts, And(c.gd(cl), lt(cl.Clk, r.Clk), Not(r.Read)))
			}
			add(Implies(c.gd(r), Or(opts...)))
		}
		// buffered channel: a send completes only while fewer than cap values are in the buffer (values sent before it
		// minus values received before it)
		if ci != nil && ci.cap > 0 {
			for _, s := range sends {
				inbuf := IntConst(0)
				for _, s2 := range sends {
					if s2 != s {
						inbuf = App("+", IntSort, inbuf, Ite(And(c.gd(s2), lt(s2.Clk, s.Clk)), IntConst(1), IntConst(0)))
					}
				}
				for _, r := range recvs {
					inbuf = App("-", IntSort, inbuf, Ite(And(c.gd(r), r.Read, lt(r.Clk, s.Clk)), IntConst(1), IntConst(0)))
				}
				add(Implies(c.gd(s), App("<", BoolSort, inbuf, IntConst(int64(ci.cap)))))
			}
		}
		// unbuffered / full-buffer sends must be received for the sender to proceed (quiescent executions)
		if ci == nil || ci.cap == 0 {
			for _, s := range sends {
				var opts []*Term
				for _, r := range recvs {
					if r.Thread != s.Thread {
						opts = append(opts, And(c.gd(r), Var(fmt.Sprintf("match!%d!%d", r.ID, s.ID), BoolSort)))
					}
				}
				add(Implies(c.gd(s), Or(opts...)))
			}
		}
		// at most one close (an obligation of the complete-execution encoding only)
		for i := 0; i < len(closes) && !c.prefix; i++ {
			for j := i + 1; j < len(closes); j++ {
				if os.Getenv("VERIF_CONCDEBUG") != "" {
					if r, _ := e.solver.Check([]*Term{closes[i].Guard, closes[j].Guard}, 10000, false); r != "unsat" {
						fmt.Fprintf(os.Stderr, "CO-SATISFIABLE (%s) closes #%d / #%d:\n  %s\n  %s\n", r, closes[i].ID, closes[j].ID, closes[i].Guard.str(30), closes[j].Guard.str(30))
					}
				}
				if false {
					fmt.Fprintf(os.Stderr, "double-close candidates on %s: #%d (thread %d, %s) guard %s\n   and #%d (thread %d, %s) guard %s\n", loc, closes[i].ID, closes[i].Thread, closes[i].Site, closes[i].Guard.str(6), closes[j].ID, closes[j].Thread, closes[j].Site, closes[j].Guard.str(6))
				}
				e.addOblig(&Obligation{ID: e.harness + ".no_double_close", Kind: "assert", PC: And(c.gd(closes[i]), c.gd(closes[j])), Cond: False, Site: closes[j].Site})
			}
		}
	}
}

func (c *ConcCtx) encodeCtx(e *Exec, byLoc map[string][]*Event, add func(*Term)) {
	// cancel events per ctx object
	cancels := map[int][]*Event{}
	deadlines := map[int][]*Event{}
	for loc, evs := range byLoc {
		if strings.HasPrefix(loc, "ctx:") {
			var id int
			fmt.Sscanf(loc, "ctx:%d", &id)
			for _, ev := range evs {
				if ev.Kind == "cancel" {
					cancels[id] = append(cancels[id], ev)
				} else if ev.Kind == "mkdeadline" && !c.beyondHorizon(ev) {
					deadlines[id] = append(deadlines[id], ev)
				}
			}
		}
	}
	// deadline firing: an environment event per deadline context, at an arbitrary clock after creation
	dlFire := map[int]*Term{}
	dlFired := map[int]*Term{}
	for id, evs := range deadlines {
		clk := Var(fmt.Sprintf("clk!deadline!%d", id), IntSort)
		fired := Var(fmt.Sprintf("deadline!fired!%d", id), BoolSort)
		dlFire[id], dlFired[id] = clk, fired
		add(Implies(fired, And(c.gd(evs[0]), lt(evs[0].Clk, clk))))
	}
	cancelledBefore := func(chain []int, clk *Term) *Term {
		var opts []*Term
		for _, id := range chain {
			for _, cv := range cancels[id] {
				opts = append(opts, And(c.gd(cv), lt(cv.Clk, clk)))
			}
			if f, ok := dlFired[id]; ok {
				opts = append(opts, And(f, lt(dlFire[id], clk)))
			}
		}
		return Or(opts...)
	}
	for loc, evs := range byLoc {
		if strings.HasPrefix(loc, "ctxs:") {
			var chain []int
			for _, p := range strings.Split(loc[5:], ",") {
				var id int
				fmt.Sscan(p, &id)
				chain = append(chain, id)
			}
			for _, ev := range evs {
				add(Implies(c.gd(ev), Eq(ev.Read, cancelledBefore(chain, ev.Clk))))
			}
		}
	}
	// receives on Done() channels: complete only after a cancellation of the chain
	for loc, evs := range byLoc {
		if !strings.HasPrefix(loc, "ch:") {
			continue
		}
		var id int
		fmt.Sscanf(loc, "ch:%d", &id)
		ci := c.chans[id]
		if ci == nil || ci.kind != "done" {
			continue
		}
		for _, ev := range evs {
			if ev.Kind != "recv" {
				continue
			}
			chain := c.doneChains[id]
			add(Implies(c.gd(ev), And(Not(ev.Read), cancelledBefore(chain, ev.Clk))))
		}
	}
}

// placeholder variable for a named ghost event (resolved when the encoding is built)
func (c *ConcCtx) placeholder(kind, key string, s Sort) *Term {
	name := kind + "@" + key
	if v, ok := c.place[name]; ok {
		return v
	}
	v := Var(name, s)
	c.place[name] = v
	return v
}

// writeTrace re-solves the violated query asking for the values of every event's guard, clock and data, and
// writes the counterexample schedule (events in clock order) to <dir>/schedule.txt.
func (c *ConcCtx) writeTrace(e *Exec, dir string, asserts []*Term, timeoutS int) {
	var extra []*Term
	for _, ev := range c.events {
		extra = append(extra, ev.Guard, ev.Clk)
		if e.cfg["timers"] == "real" {
			extra = append(extra, c.tm(ev))
		}
		if ev.Read != nil {
			extra = append(extra, ev.Read)
		}
		if ev.Write != nil {
			extra = append(extra, ev.Write)
		}
	}
	script := Script(append(append([]*Term(nil), asserts...), keepAlive(extra)...), true, "")
	var sb strings.Builder
	sb.WriteString("(get-value (")
	seen := map[int]bool{}
	for _, t := range extra {
		if !seen[t.ID] && !t.IsConst() {
			seen[t.ID] = true
			sb.WriteString(t.ref() + " ")
		}
	}
	sb.WriteString("))\n")
	fr := RunScript("z3", script+sb.String(), nil, time.Duration(timeoutS)*time.Second, "")
	if fr.Res != "sat" {
		fr = RunScript("z3new", script+sb.String(), nil, time.Duration(timeoutS)*time.Second, "")
	}
	if fr.Res != "sat" {
		os.WriteFile(filepath.Join(dir, "schedule.txt"), []byte("could not re-derive the schedule ("+fr.Res+")\n"), 0o644)
		return
	}
	if os.Getenv("VERIF_DEBUG") != "" {
		os.WriteFile(filepath.Join(dir, "trace_query.smt2"), []byte(script+sb.String()), 0o644)
		os.WriteFile(filepath.Join(dir, "trace_out.txt"), []byte(fr.Out), 0o644)
	}
	vals := parseGetValueRaw(fr.Out)
	val := func(t *Term) string {
		if t.IsConst() {
			return t.ref()
		}
		return vals[t.ref()]
	}
	type row struct {
		clk int64
		txt string
	}
	var rows []row
	for _, ev := range c.events {
		if val(ev.Guard) != "true" {
			continue
		}
		ck, _ := modelInt(val(ev.Clk))
		d := ""
		if ev.Read != nil {
			d += " read=" + short(val(ev.Read))
		}
		if ev.Write != nil {
			d += " write=" + short(val(ev.Write))
		}
		if ev.Name != "" {
			d += " name=" + ev.Name
		}
		if e.cfg["timers"] == "real" {
			if tv, ok := modelInt(val(c.tm(ev))); ok {
				d += fmt.Sprintf(" t=%.3fs", float64(tv)/1e9)
			}
		}
		rows = append(rows, row{ck, fmt.Sprintf("%6d  %-22s %-10s %-14s%s  @%s", ck, c.threads[ev.Thread].name, ev.Kind, ev.Loc, d, ev.Site)})
	}
	sort.Slice(rows, func(i, j int) bool { return rows[i].clk < rows[j].clk })
	var out strings.Builder
	out.WriteString("counterexample schedule (executed events in clock order; clock, thread, kind, location, data, source)\n")
	for _, r := range rows {
		out.WriteString(r.txt + "\n")
	}
	os.WriteFile(filepath.Join(dir, "schedule.txt"), []byte(out.String()), 0o644)
}

func short(v string) string {
	if u, ok := modelBV(v); ok {
		return fmt.Sprint(int64(u))
	}
	return v
}

// keepAlive makes the terms part of the script (so that their define-funs are emitted) without constraining them
func keepAlive(ts []*Term) []*Term {
	var out []*Term
	for _, t := range ts {
		if t.IsConst() {
			continue
		}
		out = append(out, mk("keep", BoolSort, 0, 0, "", t))
	}
	return out
}

// ---------- deadlock / lost wake-up (prefix) encoding ----------
//
// A second encoding of the same events in which every event has an "executed" flag (prefix-closed per thread).
// A deadlock is a reachable prefix in which no thread can take another step: every thread has either finished or
// its next event is a blocking operation that is disabled in the final state of the prefix (mutex held forever,
// no broadcast after the park, wait-group counter not zero, nothing to receive, context never cancelled).

func isBlockingKind(k string) bool {
	switch k {
	case "lock", "rlock", "condwake", "wgwait", "recv":
		return true
	}
	return false
}

func (c *ConcCtx) buildPrefix(e *Exec) {
	c.prefix = true
	defer func() { c.prefix = false }()
	var phi []*Term
	add := func(t *Term) {
		if !t.IsTrue() {
			phi = append(phi, t)
		}
	}
	byThread := map[int][]*Event{}
	for _, ev := range c.events {
		byThread[ev.Thread] = append(byThread[ev.Thread], ev)
	}
	x := c.xvar
	// prevDone(e): every earlier event of the thread that lies on the actual path has been executed
	prevDone := map[int]*Term{}
	for _, evs := range byThread {
		acc := True
		for i, ev := range evs {
			if i > 0 {
				add(lt(evs[i-1].Clk, ev.Clk))
			}
			prevDone[ev.ID] = acc
			add(Implies(x(ev), And(ev.Guard, acc)))
			acc = And(acc, Implies(ev.Guard, x(ev)))
		}
	}
	for _, t := range c.threads {
		if t.spawnEv != nil {
			first := byThread[t.id][0]
			add(lt(t.spawnEv.Clk, first.Clk))
			// a spawned thread starts; an unspawned one does not run
			add(Eq(x(first), x(t.spawnEv)))
		}
	}
	byLoc := map[string][]*Event{}
	for _, ev := range c.events {
		if ev.Loc != "" {
			byLoc[ev.Loc] = append(byLoc[ev.Loc], ev)
		}
	}
	locs := make([]string, 0, len(byLoc))
	for l := range byLoc {
		locs = append(locs, l)
	}
	sort.Strings(locs)
	for _, loc := range locs {
		switch loc[0] {
		case 'a':
			c.encodeAtomic(loc, byLoc[loc], add)
		case 'p':
			c.encodePlain(loc, byLoc[loc], add)
		case 'm':
			c.encodeMutex(byLoc[loc], add)
		case 'w':
			c.encodeWaitGroup(byLoc[loc], add)
		}
	}
	c.encodeCond(byLoc, add)
	c.encodeChans(e, byLoc, add)
	c.encodeCtx(e, byLoc, add)

	// enabledness of blocking events in the final state of the prefix
	enabled := func(ev *Event) *Term {
		evs := byLoc[ev.Loc]
		switch ev.Kind {
		case "lock", "rlock":
			var held []*Term
			for _, o := range evs {
				if (o.Kind == "lock" || (o.Kind == "rlock" && ev.Kind == "lock")) && o != ev {
					conj := []*Term{x(o)}
					for _, u := range o.Aux {
						conj = append(conj, Not(x(u)))
					}
					held = append(held, And(conj...))
				}
			}
			free := Not(Or(held...))
			if ev.Kind == "rlock" {
				// sync.RWMutex prefers writers: once a writer waits in Lock, new readers block - also a reader that
				// already holds a read lock (recursive read locking deadlocks against a pending writer). A writer
				// whose next step is Lock is (or will be) waiting in the final state of the prefix.
				var pending []*Term
				for _, w := range evs {
					if w.Kind == "lock" && w.Thread != ev.Thread {
						pending = append(pending, And(w.Guard, prevDone[w.ID], Not(x(w))))
					}
				}
				free = And(free, Not(Or(pending...)))
			}
			return free
		case "condwake":
			var opts []*Term
			for _, b := range evs {
				if b.Kind == "broadcast" && b.Thread != ev.Thread {
					opts = append(opts, And(x(b), lt(ev.Pair.Clk, b.Clk)))
				}
			}
			return Or(opts...)
		case "wgwait":
			var sum *Term = IntConst(0)
			for _, a := range evs {
				if a.Kind == "wgadd" {
					d := a.Val
					var di *Term
					if d.IsConst() {
						di = IntConst(d.SVal())
					} else if d.Sort.K == SInt {
						di = d
					} else {
						neg := BVCmp("bvslt", d, BVConst(0, d.Sort.W))
						di = Ite(neg, App("-", IntSort, App("bv2nat", IntSort, BVNeg(d))), App("bv2nat", IntSort, d))
					}
					sum = App("+", IntSort, sum, Ite(x(a), di, IntConst(0)))
				}
			}
			return Eq(sum, IntConst(0))
		case "send":
			// buffered channel: enabled while the buffer (executed sends - executed successful receives) is not full
			var id int
			fmt.Sscanf(ev.Loc, "ch:%d", &id)
			ci := c.chans[id]
			if ci == nil || ci.cap == 0 {
				return True
			}
			inbuf := IntConst(0)
			for _, o := range evs {
				switch o.Kind {
				case "send":
					inbuf = App("+", IntSort, inbuf, Ite(x(o), IntConst(1), IntConst(0)))
				case "recv":
					inbuf = App("-", IntSort, inbuf, Ite(And(x(o), o.Read), IntConst(1), IntConst(0)))
				}
			}
			return App("<", BoolSort, inbuf, IntConst(int64(ci.cap)))
		case "recv":
			var id int
			fmt.Sscanf(ev.Loc, "ch:%d", &id)
			ci := c.chans[id]
			if ci != nil && (ci.kind == "ticker" || ci.kind == "timer") {
				return True // the environment can always deliver (conservative: never the cause of a deadlock)
			}
			if ci != nil && ci.kind == "done" {
				var opts []*Term
				for _, cid := range c.doneChains[id] {
					for _, cv := range byLoc[fmt.Sprintf("ctx:%d", cid)] {
						if cv.Kind == "cancel" {
							opts = append(opts, x(cv))
						}
						if cv.Kind == "mkdeadline" && !c.beyondHorizon(cv) {
							opts = append(opts, x(cv)) // a deadline eventually fires
						}
					}
				}
				return Or(opts...)
			}
			var opts []*Term
			nsend, nrecv := IntConst(0), IntConst(0)
			for _, o := range evs {
				switch o.Kind {
				case "close":
					opts = append(opts, x(o))
				case "send":
					nsend = App("+", IntSort, nsend, Ite(x(o), IntConst(1), IntConst(0)))
				case "recv":
					nrecv = App("+", IntSort, nrecv, Ite(x(o), IntConst(1), IntConst(0)))
				}
			}
			opts = append(opts, App("<", BoolSort, nrecv, nsend))
			return Or(opts...)
		}
		return True
	}
	for _, tr := range c.truncs {
		// a prefix in which a thread has run up to a point where its path was cut at the unroll bound says nothing:
		// excluded (path condition holds and every event of that path has been executed)
		conj := []*Term{tr[0].(*Term)}
		for _, ev := range tr[1].([]*Event) {
			conj = append(conj, Implies(ev.Guard, x(ev)))
		}
		add(Not(And(conj...)))
	}
	// the values read / chosen by a thread must be consistent with one of its symbolic paths (this is what keeps
	// harness assumptions in force for prefixes)
	for _, t := range c.threads {
		var leaves []*Term
		leaves = append(leaves, t.finals...)
		leaves = append(leaves, t.panics...)
		leaves = append(leaves, t.leafPCs...)
		started := True
		if t.spawnEv != nil {
			started = x(t.spawnEv)
		}
		add(Implies(started, Or(leaves...)))
	}
	var stuckAny []*Term
	for _, t := range c.threads {
		evs := byThread[t.id]
		for _, ev := range evs {
			next := And(ev.Guard, prevDone[ev.ID], Not(x(ev))) // ev is the thread's next step
			if t.spawnEv != nil && ev == evs[0] {
				continue
			}
			blocking := isBlockingKind(ev.Kind)
			if ev.Kind == "send" {
				var id int
				fmt.Sscanf(ev.Loc, "ch:%d", &id)
				if ci := c.chans[id]; ci != nil && ci.cap > 0 && ci.kind == "" {
					blocking = true // a send on a buffered channel blocks while the buffer is full
				}
			}
			if !blocking {
				add(Not(next)) // non-blocking steps are always taken
				continue
			}
			sel := c.selectAlts[ev.ID]
			en := enabled(ev)
			for _, alt := range sel {
				en = Or(en, enabled(alt))
			}
			add(Implies(next, Not(en)))
			started := True
			if t.spawnEv != nil {
				started = x(t.spawnEv)
			}
			stuckAny = append(stuckAny, And(next, started))
		}
	}
	c.phiPrefix = phi
	c.stuck = Or(stuckAny...)
}

// mainStuckAt: in the prefix (deadlock) encoding, "the harness's main thread has executed everything before one of
// its blocking steps located in the given source file and never executes that step".
func (c *ConcCtx) mainStuckAt(file string) *Term {
	var alts []*Term
	var before []*Term // guard(ev') -> executed(ev') for the main thread's events seen so far
	for _, ev := range c.events {
		if ev.Thread != 0 {
			continue
		}
		if strings.Contains(ev.Site, file) {
			alts = append(alts, And(append([]*Term{ev.Guard, Not(c.xvar(ev))}, before...)...))
		}
		before = append(before, Implies(ev.Guard, c.xvar(ev)))
	}
	return Or(alts...)
}

// writePrefixTrace prints the deadlocked prefix: executed events in clock order and, per thread, where it is stuck.
func (c *ConcCtx) writePrefixTrace(e *Exec, dir string, asserts []*Term, timeoutS int) {
	var extra []*Term
	for _, ev := range c.events {
		extra = append(extra, c.xvar(ev), ev.Clk, ev.Guard)
		if ev.Read != nil {
			extra = append(extra, ev.Read)
		}
		if ev.Write != nil {
			extra = append(extra, ev.Write)
		}
	}
	script := Script(append(append([]*Term(nil), asserts...), keepAlive(extra)...), true, "")
	var sb strings.Builder
	sb.WriteString("(get-value (")
	seen := map[int]bool{}
	for _, t := range extra {
		if !seen[t.ID] && !t.IsConst() {
			seen[t.ID] = true
			sb.WriteString(t.ref() + " ")
		}
	}
	sb.WriteString("))\n")
	fr := RunScript("z3", script+sb.String(), nil, time.Duration(timeoutS)*time.Second, "")
	if fr.Res != "sat" {
		fr = RunScript("z3new", script+sb.String(), nil, time.Duration(timeoutS)*time.Second, "")
	}
	if fr.Res != "sat" {
		os.WriteFile(filepath.Join(dir, "schedule.txt"), []byte("could not re-derive the schedule ("+fr.Res+")\n"), 0o644)
		return
	}
	vals := parseGetValueRaw(fr.Out)
	val := func(t *Term) string {
		if t.IsConst() {
			return t.ref()
		}
		return vals[t.ref()]
	}
	type row struct {
		clk int64
		txt string
	}
	var rows []row
	var out strings.Builder
	out.WriteString("deadlocked prefix: executed events in clock order, then the step each unfinished thread is blocked at\n")
	stuckAt := map[int]string{}
	for _, ev := range c.events {
		if val(c.xvar(ev)) == "true" {
			ck, _ := modelInt(val(ev.Clk))
			d := ""
			if ev.Read != nil {
				d += " read=" + short(val(ev.Read))
			}
			if ev.Write != nil {
				d += " write=" + short(val(ev.Write))
			}
			rows = append(rows, row{ck, fmt.Sprintf("%6d  %-22s %-10s %-14s%s  @%s", ck, c.threads[ev.Thread].name, ev.Kind, ev.Loc, d, ev.Site)})
		} else if val(ev.Guard) == "true" {
			if _, ok := stuckAt[ev.Thread]; !ok {
				stuckAt[ev.Thread] = fmt.Sprintf("%-22s BLOCKED at %s %s @%s", c.threads[ev.Thread].name, ev.Kind, ev.Loc, ev.Site)
			}
		}
	}
	sort.Slice(rows, func(i, j int) bool { return rows[i].clk < rows[j].clk })
	for _, r := range rows {
		out.WriteString(r.txt + "\n")
	}
	var ts []int
	for t := range stuckAt {
		ts = append(ts, t)
	}
	sort.Ints(ts)
	for _, t := range ts {
		out.WriteString(stuckAt[t] + "\n")
	}
	os.WriteFile(filepath.Join(dir, "schedule.txt"), []byte(out.String()), 0o644)
}

// noteTruncation records that the current thread path was cut at the unroll bound: prefixes running into the cut
// are excluded from the deadlock query (they are outside the bound, not stuck).
func (c *ConcCtx) noteTruncation(st *State) {
	if st.Thread == nil || len(st.Thread.events) == 0 {
		return
	}
	// the whole event list of the path (after merges its tail mixes events of several branches: the last element
	// need not lie on this path)
	c.truncs = append(c.truncs, [2]interface{}{st.PCTerm(), append([]*Event(nil), st.Thread.events...)})
	st.Thread.rec.leafPCs = append(st.Thread.rec.leafPCs, st.PCTerm())
}

// envOp models the process environment as one sequentially consistent cell per (concrete) variable name
func (c *ConcCtx) envOp(e *Exec, st *State, op string, key string, val *Term, site string) *Term {
	loc := "a:env:" + key
	if _, ok := c.inits[loc]; !ok {
		c.inits[loc] = StrConst("")
		c.sorts[loc] = StringSort
	}
	switch op {
	case "get":
		ev := c.emit(st, "load", loc, site)
		ev.Read = e.fresh("env", StringSort)
		return ev.Read
	default:
		ev := c.emit(st, "store", loc, site)
		ev.Write = val
		return nil
	}
}
