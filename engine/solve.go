package main

import (
	"strconv"
	"encoding/json"
	"fmt"
	"math"
	"os"
	"os/exec"
	"path/filepath"
	"regexp"
	"sort"
	"strings"
	"sync"
	"time"
)

type KnownFinding struct {
	Property   string `json:"property"`
	Status     string `json:"status"` // known | fixed
	Harness    string `json:"harness,omitempty"`
	Obligation string `json:"obligation"`
	Region     string `json:"region,omitempty"` // SMT-LIB predicate over nondet names; empty = whole obligation
	// deadlock obligations: the finding is "the harness's main thread waits forever at a blocking step in this source
	// file" (substring of the event's site); any other deadlock / lost wake-up of the same obligation is still reported
	BlockedAt string `json:"main_blocked_at,omitempty"`
	Commit     string `json:"commit,omitempty"`
	Text       string `json:"text"`
}

func loadKnown(prop string) []KnownFinding {
	var all struct {
		Findings []KnownFinding `json:"findings"`
	}
	b, err := os.ReadFile(filepath.Join(verifDir, "known_findings.json"))
	if err != nil {
		return nil
	}
	if err := json.Unmarshal(b, &all); err != nil {
		fmt.Fprintln(os.Stderr, "known_findings.json:", err)
		return nil
	}
	var out []KnownFinding
	for _, k := range all.Findings {
		if k.Property == prop && k.Status == "known" {
			out = append(out, k)
		}
	}
	return out
}

var barName = regexp.MustCompile(`\|([^|]+)\|`)

// rawPred turns an SMT-LIB predicate text over |nondet| names into a term.
func (e *Exec) rawPred(txt string) *Term {
	var args []*Term
	for _, m := range barName.FindAllStringSubmatch(txt, -1) {
		if v, ok := e.nondets[m[1]]; ok {
			args = append(args, v)
		}
	}
	return mk("raw", BoolSort, 0, 0, txt, args...)
}

func (e *Exec) sideAxioms() []*Term {
	var ax []*Term
	for name, apps := range e.ufApps {
		for i, a := range apps {
			x, r := a[0], a[1]
			if e.fpRelaxed {
				zero := RealConst("0.0")
				switch name {
				case "math_Exp":
					ax = append(ax, App("<", BoolSort, zero, r))
					ax = append(ax, Implies(App("<=", BoolSort, x, zero), App("<=", BoolSort, r, RealConst("1.0"))))
				case "math_Erfc":
					ax = append(ax, App("<=", BoolSort, zero, r), App("<=", BoolSort, r, RealConst("2.0")))
				}
				for j := 0; j < i; j++ {
					y, s := apps[j][0], apps[j][1]
					if name == "math_Exp" {
						ax = append(ax, Implies(App("<=", BoolSort, x, y), App("<=", BoolSort, r, s)), Implies(App("<=", BoolSort, y, x), App("<=", BoolSort, s, r)))
					} else {
						ax = append(ax, Implies(App("<=", BoolSort, x, y), App("<=", BoolSort, s, r)), Implies(App("<=", BoolSort, y, x), App("<=", BoolSort, r, s)))
					}
				}
				continue
			}
			switch name {
			case "math_Exp":
				// range: Exp(x) >= 0, not NaN for non-NaN x; Exp(x) <= 1 for x <= 0 (math.Exp is exact at 0 and monotone)
				ax = append(ax, Implies(Not(FPIsNaN(x)), And(FPCmp("fp.geq", r, FPConst(0)), Not(FPIsNaN(r)))))
				ax = append(ax, Implies(FPCmp("fp.leq", x, FPConst(0)), FPCmp("fp.leq", r, FPConst(1))))
			case "math_Erfc":
				ax = append(ax, Implies(Not(FPIsNaN(x)), And(FPCmp("fp.geq", r, FPConst(0)), FPCmp("fp.leq", r, FPConst(2)))))
			}
			for j := 0; j < i; j++ {
				y, s := apps[j][0], apps[j][1]
				if name == "math_Exp" {
					ax = append(ax, Implies(FPCmp("fp.leq", x, y), FPCmp("fp.leq", r, s)), Implies(FPCmp("fp.leq", y, x), FPCmp("fp.leq", s, r)))
				} else {
					ax = append(ax, Implies(FPCmp("fp.leq", x, y), FPCmp("fp.leq", s, r)), Implies(FPCmp("fp.leq", y, x), FPCmp("fp.leq", r, s)))
				}
			}
		}
	}
	if e.cfg["fpmono"] != "" && e.fpRelaxed {
		// IEEE rounding is monotone: x <= y implies fl(x) <= fl(y)
		type pr struct{ x, r *Term }
		var ps []pr
		for id, r := range roundedCache {
			ps = append(ps, pr{termList[id], r})
		}
		sort.Slice(ps, func(i, j int) bool { return ps[i].x.ID < ps[j].x.ID })
		if len(ps) <= 40 {
			for i := range ps {
				for j := 0; j < i; j++ {
					ax = append(ax, Implies(App("<=", BoolSort, ps[i].x, ps[j].x), App("<=", BoolSort, ps[i].r, ps[j].r)))
					ax = append(ax, Implies(App("<=", BoolSort, ps[j].x, ps[i].x), App("<=", BoolSort, ps[j].r, ps[i].r)))
				}
			}
		}
	}
	if e.conc != nil {
		ax = append(ax, e.conc.sideConstraints()...)
	}
	return ax
}

type qres struct {
	res    string
	model  Model
	solver string
	dur    float64
}

// decide runs the query on the incremental solver and, if undecided, on a portfolio of one-shot solvers.
func (e *Exec) decide(asserts []*Term, timeoutS int, pref string, scriptPath string, wantModel bool) qres {
	t0 := time.Now()
	try := []string{}
	switch pref {
	case "cvc5":
		try = []string{"cvc5", "z3new"}
	case "z3new":
		// (z3 4.8.12 is deliberately not consulted here: it answered "unsat" on a satisfiable string query)
		try = []string{"z3new", "cvc5"}
	case "cvc5int":
		try = []string{"cvc5int", "z3new", "cvc5"}
	default:
		// quick attempt on the live incremental solver (cheap queries), then one-shot z3 (full tactics)
		r, m := e.solver.Check(asserts, 1500, wantModel)
		if r != "unknown" {
			return qres{r, m, "z3", time.Since(t0).Seconds()}
		}
		vars0 := varsOf(Collect(asserts))
		if !wantModel {
			vars0 = nil
		}
		p0 := ""
		if scriptPath != "" {
			p0 = scriptPath + ".z3.smt2"
		}
		fr := RunScript("z3", Script(asserts, wantModel, ""), vars0, time.Duration(timeoutS)*time.Second, p0)
		if fr.Res != "unknown" {
			return qres{fr.Res, fr.Model, "z3", time.Since(t0).Seconds()}
		}
		try = []string{"z3new", "cvc5", "cvc5int"}
	}
	script := Script(asserts, wantModel, "")
	vars := varsOf(Collect(asserts))
	if !wantModel {
		vars = nil
	}
	type pr struct {
		r FileResult
	}
	ch := make(chan FileResult, len(try))
	for _, k := range try {
		go func(k string) {
			p := ""
			if scriptPath != "" {
				p = scriptPath + "." + k + ".smt2"
			}
			ch <- RunScript(k, script, vars, time.Duration(timeoutS)*time.Second, p)
		}(k)
	}
	var got []FileResult
	for range try {
		r := <-ch
		got = append(got, r)
		if r.Res != "unknown" {
			// do not wait for the others (they die with their own timeouts)
			return qres{r.Res, r.Model, r.Solver, time.Since(t0).Seconds()}
		}
	}
	return qres{"unknown", nil, strings.Join(try, "+"), time.Since(t0).Seconds()}
}

func solveAll(e *Exec, res *HarnessResult, prop string, timeoutS int, meta *HarnessMeta, seed int) {
	known := loadKnown(prop)
	axioms := e.sideAxioms()
	// group by (kind,id)
	type grp struct {
		raw                    []*Term
		noReplay               bool
		id, kind, site, detail string
		qs                     []*Term // each: PC ∧ ¬Cond
		n                      int
	}
	groups := map[string]*grp{}
	var order []string
	for _, o := range e.obligs {
		key := o.Kind + "|" + o.ID
		if o.Kind == "nopanic" {
			key += "|" + o.Site
		}
		g, ok := groups[key]
		if !ok {
			g = &grp{id: o.ID, kind: o.Kind, site: o.Site, detail: o.Detail, noReplay: o.NoReplay}
			groups[key] = g
			order = append(order, key)
		}
		g.n++
		switch o.Kind {
		case "deadlock":
			g.raw = o.Raw
		case "cover":
			g.qs = append(g.qs, o.PC)
		default:
			g.qs = append(g.qs, And(o.PC, Not(o.Cond)))
		}
	}
	outDir := filepath.Join(outBase(), prop, res.Harness)
	for _, key := range order {
		g := groups[key]
		q := Or(g.qs...)
		or := OblResult{ID: g.id, Kind: g.kind, Site: g.site, Count: g.n, Detail: g.detail}
		if q.IsFalse() && g.kind != "deadlock" {
			or.Res = "unsat"
			or.Trivial = true
			or.Solver = "simplifier"
			if g.kind == "cover" {
				or.Res = "unsat"
			}
			res.Obligations = append(res.Obligations, or)
			continue
		}
		asserts := append([]*Term{q}, axioms...)
		if g.kind == "deadlock" {
			// self-contained query over the prefix encoding (the complete-execution constraints do not apply)
			r := e.decide(g.raw, timeoutS, meta.Solver, "", true)
			or.Res, or.Solver, or.SolverS = r.res, r.solver, r.dur
			raw := g.raw
			if r.res == "sat" {
				for _, k := range known {
					if k.Obligation != g.id || (k.Harness != "" && k.Harness != res.Harness) || k.BlockedAt == "" {
						continue
					}
					region := e.conc.mainStuckAt(k.BlockedAt)
					in := e.decide(append(append([]*Term(nil), raw...), region), timeoutS, meta.Solver, "", true)
					if in.res == "sat" {
						res.Known = append(res.Known, fmt.Sprintf("KNOWN-FINDING: property=%s %s [%s]", prop, k.Text, g.id))
						or.Known = k.Text
					}
					raw = append(append([]*Term(nil), raw...), Not(region))
					outR := e.decide(raw, timeoutS, meta.Solver, "", true)
					or.SolverS += in.dur + outR.dur
					switch outR.res {
					case "unsat":
						or.Res = "sat-known-only"
					case "unknown":
						or.Res = "unknown"
						or.Detail += " (outside the known finding undecided)"
					}
					r = outR
				}
			}
			if r.res == "sat" {
				dir := filepath.Join(outDir, sanitize(g.id))
				os.MkdirAll(dir, 0o755)
				os.WriteFile(filepath.Join(dir, "query.smt2"), []byte(Script(raw, true, "")), 0o644)
				e.conc.writePrefixTrace(e, dir, raw, timeoutS)
				or.Replay = dir
				res.Violations = append(res.Violations, fmt.Sprintf("VIOLATION property=%s replay=%s obligation=%s site=%s replayed=skipped deadlock/lost wake-up: see schedule.txt", prop, dir, g.id, g.site))
			}
			res.Obligations = append(res.Obligations, or)
			continue
		}
		if g.kind == "cover" {
			cd := ""
			if d := os.Getenv("VERIF_DUMP"); d != "" {
				cd = filepath.Join(d, res.Harness+"_cover_"+sanitize(g.id))
			}
			validate := !meta.Conc && meta.Opts["noreplay"] == "" && os.Getenv("VERIF_NOREPLAY") == "" && res.Validated < 2 && !e.fpRelaxed
			r := e.decide(asserts, timeoutS, meta.Solver, cd, validate)
			if r.res == "unknown" && e.fpRelaxed && len(roundedPairs) > 0 {
				// a reachability witness only has to exist: look for one in which no float operation rounds (error 0
				// is within the relaxation, so sat here implies sat of the original query)
				strong := append([]*Term(nil), asserts...)
				for _, pr := range roundedPairs {
					strong = append(strong, Eq(pr[1], pr[0]))
				}
				r2 := e.decide(strong, timeoutS, meta.Solver, "", false)
				if r2.res == "sat" {
					r2.dur += r.dur
					r2.solver += " (witness without rounding error)"
					r = r2
				}
			}
			or.Res, or.Solver, or.SolverS = r.res, r.solver, r.dur
			if validate && r.res == "sat" && r.model != nil {
				// translator validation: a witness of this reachable point is run natively; since every assertion
				// of the harness was (or will be) shown to hold, the native run must not fail any of them
				dir := filepath.Join(outDir, "witness_"+sanitize(g.id))
				os.MkdirAll(dir, 0o755)
				writeModel(dir, res.Harness, "(witness of "+g.id+")", "witness", g.site, r.model, e)
				rep := nativeReplay(prop, meta, dir)
				logb, _ := os.ReadFile(filepath.Join(dir, "replay.log"))
				res.Validated++
				if rep == "not-reproduced" && strings.Contains(string(logb), "failed=[]") && strings.Contains(string(logb), "panic=<nil>") {
					res.ValidatedOK++
				} else if rep != "error" && !strings.Contains(string(logb), "violates a harness assumption") {
					res.ValidationNotes = append(res.ValidationNotes, fmt.Sprintf("witness of %s: native run disagrees (%s): see %s", g.id, rep, dir))
				}
			}
			res.Obligations = append(res.Obligations, or)
			continue
		}
		first := timeoutS
		if len(g.qs) > 1 && first > 15 {
			first = 15
		}
		dump := ""
		if d := os.Getenv("VERIF_DUMP"); d != "" {
			dump = filepath.Join(d, res.Harness+"_"+sanitize(g.id))
		}
		r := e.decide(asserts, first, meta.Solver, dump, true)
		if r.res == "unknown" && len(g.qs) > 1 {
			// the disjunction over all paths is too heavy: decide path by path
			tot := r.dur
			allUnsat := true
			// per-path queries: cheap attempt on the live solver, the rest in parallel on one-shot solvers
			type job struct {
				q   *Term
				res qres
			}
			var jobs []*job
			for _, qi := range g.qs {
				if qi.IsFalse() {
					continue
				}
				rr, mm := e.solver.Check(append([]*Term{qi}, axioms...), 300, true)
				if rr == "unsat" {
					continue
				}
				if rr == "sat" {
					r = qres{"sat", mm, "z3", 0}
					q = qi
					allUnsat = false
					jobs = nil
					break
				}
				jobs = append(jobs, &job{q: qi})
			}
			if allUnsat && len(jobs) > 0 {
				sem := make(chan struct{}, 6)
				var wg sync.WaitGroup
				tj := time.Now()
				for _, j := range jobs {
					wg.Add(1)
					go func(j *job) {
						defer wg.Done()
						sem <- struct{}{}
						defer func() { <-sem }()
						as := append([]*Term{j.q}, axioms...)
						vars := varsOf(Collect(as))
						fr := RunScript("z3", Script(as, true, ""), vars, time.Duration(timeoutS)*time.Second, "")
						if fr.Res == "unknown" {
							fr = RunScript("z3new", Script(as, true, ""), vars, time.Duration(timeoutS)*time.Second, "")
						}
						j.res = qres{fr.Res, fr.Model, fr.Solver, fr.Dur.Seconds()}
					}(j)
				}
				wg.Wait()
				tot += time.Since(tj).Seconds()
				for _, j := range jobs {
					if j.res.res == "sat" {
						r = j.res
						q = j.q
						allUnsat = false
						break
					}
					if j.res.res != "unsat" {
						allUnsat = false
						r = j.res
					}
				}
			}
			if allUnsat {
				r = qres{"unsat", nil, "z3 (per path)", tot}
			}
			r.dur = tot
		} else if r.res == "unknown" && first < timeoutS {
			r = e.decide(asserts, timeoutS, meta.Solver, "", true)
		}
		or.Res, or.Solver, or.SolverS = r.res, r.solver, r.dur
		if e.cfg["tier"] == "thorough" && r.res != "unknown" && e.cfg["crosscheck"] != "off" {
			// second opinion from a different solver
			alt := "z3new"
			if r.solver == "z3new" {
				alt = "cvc5"
			}
			fr := RunScript(alt, Script(asserts, false, ""), nil, time.Duration(timeoutS)*time.Second, "")
			if fr.Res != "unknown" && fr.Res != r.res {
				or.Res = "unknown"
				or.Detail += fmt.Sprintf(" solver disagreement: %s=%s %s=%s", r.solver, r.res, alt, fr.Res)
			} else if fr.Res != "unknown" {
				or.Solver += "+" + alt
			}
			res.SolverS += fr.Dur.Seconds()
		}
		if or.Res == "sat" {
			// known findings
			model := r.model
			violation := true
			for _, k := range known {
				if k.Obligation != g.id || (k.Harness != "" && k.Harness != res.Harness) {
					continue
				}
				if k.Region == "" {
					res.Known = append(res.Known, fmt.Sprintf("KNOWN-FINDING: property=%s %s [%s] %s", prop, k.Text, g.id, modelBrief(model, e)))
					or.Known = k.Text
					violation = false
					break
				}
				region := e.rawPred(k.Region)
				in := e.decide(append([]*Term{q, region}, axioms...), timeoutS, meta.Solver, "", true)
				if in.res == "sat" {
					res.Known = append(res.Known, fmt.Sprintf("KNOWN-FINDING: property=%s %s [%s] %s", prop, k.Text, g.id, modelBrief(in.model, e)))
					or.Known = k.Text
				}
				q = And(q, Not(region))
				outR := e.decide(append([]*Term{q}, axioms...), timeoutS, meta.Solver, "", true)
				if outR.res == "unsat" {
					violation = false
					or.Res = "sat-known-only"
					break
				}
				if outR.res == "unknown" {
					violation = false
					or.Res = "unknown"
					or.Detail += " (outside known region undecided)"
					break
				}
				model = outR.model
			}
			if violation && e.fpRelaxed && !meta.Conc && !g.noReplay && meta.Opts["noreplay"] == "" {
				// look for a counterexample whose float inputs are exactly representable (multiples of 1/8 of
				// moderate size), so that the native replay runs on the very same values
				var nice []*Term
				for name, ty := range e.nondetTy {
					v := e.nondets[name]
					if ty == "float64" && v.Sort.K == SReal {
						nice = append(nice, App("is_int", BoolSort, App("*", RealSort, RealConst("8.0"), v)),
							App("<=", BoolSort, v, RealConst("1073741824.0")), App("<=", BoolSort, RealConst("(- 1073741824.0)"), v))
					}
				}
				if len(nice) > 0 {
					nr := e.decide(append(append([]*Term{q}, nice...), axioms...), timeoutS, meta.Solver, "", true)
					if nr.res == "sat" {
						model = nr.model
					}
				}
			}
			if violation {
				or.Model = model
				dir := filepath.Join(outDir, sanitize(g.id))
				os.MkdirAll(dir, 0o755)
				os.WriteFile(filepath.Join(dir, "query.smt2"), []byte(Script(append([]*Term{q}, axioms...), true, "")), 0o644)
				writeModel(dir, res.Harness, g.id, g.kind, g.site, model, e)
				if e.conc != nil {
					e.conc.writeTrace(e, dir, append([]*Term{q}, axioms...), timeoutS)
				}
				or.Replay = dir
				rep := "skipped"
				if !meta.Conc && !g.noReplay && meta.Opts["noreplay"] == "" && os.Getenv("VERIF_NOREPLAY") == "" {
					rep = nativeReplay(prop, meta, dir)
				}
				if rep == "not-reproduced" && (e.fpUF || e.fpRelaxed) {
					// the counterexample comes from an abstraction of float arithmetic: the concrete instance the
					// solver happened to pick may be degenerate natively (e.g. a factor 0 hides a wrong index).
					// Ask for other instances: first one whose integer inputs avoid 0 and 1, then a few more with
					// the earlier integer assignments blocked; report only what reproduces.
					var ints []*Term
					intName := map[*Term]string{}
					for name, ty := range e.nondetTy {
						if v := e.nondets[name]; v != nil && (strings.HasPrefix(ty, "int") || strings.HasPrefix(ty, "uint")) && (v.Sort.K == SInt || v.Sort.K == SBV) {
							ints = append(ints, v)
							intName[v] = name
						}
					}
					sort.Slice(ints, func(i, j int) bool { return ints[i].ID < ints[j].ID })
					konst := func(v *Term, k int64) *Term {
						if v.Sort.K == SInt {
							return IntConst(k)
						}
						return BVConst(uint64(k), v.Sort.W)
					}
					var blocked []*Term
					for attempt := 0; attempt < 6 && rep == "not-reproduced"; attempt++ {
						extra := append([]*Term(nil), blocked...)
						if attempt == 0 {
							for _, v := range ints {
								extra = append(extra, Not(Eq(v, konst(v, 0))), Not(Eq(v, konst(v, 1))))
							}
						}
						r2 := e.decide(append(append([]*Term{q}, extra...), axioms...), timeoutS, meta.Solver, "", true)
						if r2.res != "sat" || r2.model == nil {
							if attempt == 0 {
								continue
							}
							break
						}
						writeModel(dir, res.Harness, g.id, g.kind, g.site, r2.model, e)
						rep2 := nativeReplay(prop, meta, dir)
						res.Replays++
						if rep2 == "reproduced" {
							rep, model = rep2, r2.model
							or.Model = model
							break
						}
						// block this integer assignment
						var diff []*Term
						for _, v := range ints {
							if raw, ok := r2.model[intName[v]]; ok {
								if c := modelConst(v, raw); c != nil {
									diff = append(diff, Not(Eq(v, c)))
								}
							}
						}
						if len(diff) == 0 {
							break
						}
						blocked = append(blocked, Or(diff...))
					}
				}
				or.Replayed = rep
				if rep == "reproduced" || rep == "not-reproduced" {
					res.Replays++
				}
				if rep == "not-reproduced" {
					or.Res = "unknown"
					or.Detail += " solver counterexample did NOT reproduce natively (encoder or stub suspect)"
					e.issues = append(e.issues, Issue{"replay", "counterexample for " + g.id + " did not reproduce natively; see " + dir})
				} else {
					res.Violations = append(res.Violations, fmt.Sprintf("VIOLATION property=%s replay=%s obligation=%s site=%s replayed=%s %s", prop, dir, g.id, g.site, rep, modelBrief(model, e)))
				}
			}
		}
		res.Obligations = append(res.Obligations, or)
		checkpoint(res)
		if os.Getenv("VERIF_PROGRESS") != "" {
			fmt.Fprintf(os.Stderr, "  [%s] %s %s %s %.1fs (%d paths)\n", res.Harness, g.kind, g.id, or.Res, or.SolverS, g.n)
		}
	}
}

func sanitize(s string) string {
	return strings.Map(func(r rune) rune {
		if r >= 'a' && r <= 'z' || r >= 'A' && r <= 'Z' || r >= '0' && r <= '9' || r == '.' || r == '_' || r == '-' {
			return r
		}
		return '_'
	}, s)
}

type ModelVal struct {
	Ty string `json:"ty"`
	V  string `json:"v"`
}

func decodeModel(m Model, e *Exec) map[string]ModelVal {
	out := map[string]ModelVal{}
	for name, ty := range e.nondetTy {
		raw, ok := m[name]
		if !ok {
			continue
		}
		switch ty {
		case "bool":
			out[name] = ModelVal{ty, raw}
		case "int", "int64", "int32":
			if iv, ok := modelInt(raw); ok {
				out[name] = ModelVal{ty, fmt.Sprint(iv)}
			} else if u, ok := modelBV(raw); ok {
				w := 64
				if ty == "int32" {
					w = 32
				}
				out[name] = ModelVal{ty, fmt.Sprint(BVConst(u, w).SVal())}
			}
		case "uint64", "uint8":
			if u, ok := modelBV(raw); ok {
				out[name] = ModelVal{ty, fmt.Sprint(u)}
			}
		case "float64":
			if f, ok := modelFP(raw); ok {
				out[name] = ModelVal{ty, fmt.Sprintf("%x", math.Float64bits(f))}
			} else if f, ok := modelReal(raw); ok {
				// relaxed-real mode: nearest float64 of the rational model value
				out[name] = ModelVal{ty, fmt.Sprintf("%x", math.Float64bits(f))}
			} else {
				out[name] = ModelVal{"real", raw}
			}
		case "string":
			if s, ok := modelString(raw); ok {
				out[name] = ModelVal{ty, s}
			}
		}
	}
	return out
}

func modelBrief(m Model, e *Exec) string {
	d := decodeModel(m, e)
	var ks []string
	for k := range d {
		ks = append(ks, k)
	}
	sort.Strings(ks)
	var parts []string
	for _, k := range ks {
		v := d[k].V
		if d[k].Ty == "float64" {
			var b uint64
			fmt.Sscanf(v, "%x", &b)
			v = fmt.Sprint(math.Float64frombits(b))
		}
		if d[k].Ty == "string" {
			v = fmt.Sprintf("%q", v)
		}
		parts = append(parts, k+"="+v)
		if len(parts) >= 14 {
			parts = append(parts, "…")
			break
		}
	}
	return "model{" + strings.Join(parts, " ") + "}"
}

func writeModel(dir, harness, id, kind, site string, m Model, e *Exec) {
	doc := map[string]interface{}{
		"harness": harness, "obligation": id, "kind": kind, "site": site,
		"values": decodeModel(m, e), "raw": m,
	}
	b, _ := json.MarshalIndent(doc, "", " ")
	os.WriteFile(filepath.Join(dir, "model.json"), b, 0o644)
}

// nativeReplay runs the harness natively (go test -overlay) with the model's values.
func nativeReplay(prop string, meta *HarnessMeta, dir string) string {
	files, err := harnessFiles(prop)
	if err != nil {
		return "error"
	}
	ov := map[string]string{}
	for _, f := range files {
		ov[f.Overlay] = f.Src
	}
	ov[filepath.Join(repoDir, "internal", "zzverif", "zzverif.go")] = filepath.Join(verifDir, "harness", "zzverif", "zzverif.go")
	// package name of the harness file
	src, _ := os.ReadFile(meta.File)
	pm := regexp.MustCompile(`(?m)^package\s+(\w+)`).FindSubmatch(src)
	if pm == nil {
		return "error"
	}
	test := fmt.Sprintf(`package %s

import (
	"os"
	"testing"

	zz "%s/internal/zzverif"
)

func TestVerifReplay(t *testing.T) {
	zz.RunReplay(t, os.Getenv("VERIF_MODEL"), %s)
}
`, string(pm[1]), modPath, meta.Name)
	testPath := filepath.Join(dir, "zz_verif_replay_test.go")
	os.WriteFile(testPath, []byte(test), 0o644)
	ov[filepath.Join(repoDir, meta.Pkg, "zz_verif_replay_test.go")] = testPath
	ob, _ := json.Marshal(map[string]interface{}{"Replace": ov})
	ovPath := filepath.Join(dir, "overlay.json")
	os.WriteFile(ovPath, ob, 0o644)
	fuzz := ""
	if meta.FP == "uf" || meta.FP == "relaxed" {
		fuzz = "VERIF_FUZZ_FLOATS=1 "
	}
	sh := fmt.Sprintf("#!/bin/sh\n# replays the solver's counterexample against the natively compiled code\ncd %s && "+fuzz+"VERIF_MODEL=%s GOFLAGS=-mod=mod GOPROXY=off GOSUMDB=off GOTOOLCHAIN=local go test -vet=off -count=1 -overlay %s -run 'TestVerifReplay$' -v ./%s\n",
		repoDir, filepath.Join(dir, "model.json"), ovPath, meta.Pkg)
	os.WriteFile(filepath.Join(dir, "replay.sh"), []byte(sh), 0o755)
	cmd := exec.Command("timeout", "300", "sh", filepath.Join(dir, "replay.sh"))
	out, _ := cmd.CombinedOutput()
	os.WriteFile(filepath.Join(dir, "replay.log"), out, 0o644)
	s := string(out)
	switch {
	case strings.Contains(s, "VERIF-REPLAY: reproduced"):
		return "reproduced"
	case strings.Contains(s, "VERIF-REPLAY: not-reproduced"):
		return "not-reproduced"
	}
	return "error"
}

// modelConst turns the SMT text of a model value into a constant of the variable's sort (nil if not understood).
func modelConst(v *Term, raw string) *Term {
	raw = strings.TrimSpace(raw)
	switch v.Sort.K {
	case SBV:
		if strings.HasPrefix(raw, "#x") {
			if u, err := strconv.ParseUint(raw[2:], 16, 64); err == nil {
				return BVConst(u, v.Sort.W)
			}
		}
		if strings.HasPrefix(raw, "#b") {
			if u, err := strconv.ParseUint(raw[2:], 2, 64); err == nil {
				return BVConst(u, v.Sort.W)
			}
		}
	case SInt:
		neg := false
		t := raw
		if strings.HasPrefix(t, "(-") {
			neg = true
			t = strings.TrimSpace(strings.TrimSuffix(strings.TrimPrefix(t, "(-"), ")"))
		}
		if n, err := strconv.ParseInt(t, 10, 64); err == nil {
			if neg {
				n = -n
			}
			return IntConst(n)
		}
	}
	return nil
}

// checkpoint: the child writes what it has decided so far after every obligation, so that a counterexample found
// (and replayed) before the harness's wall-clock limit is still reported when the remaining obligations run out of
// time (the parent kills the child at the limit).
var checkpointPath string

func checkpoint(res *HarnessResult) {
	if checkpointPath == "" {
		return
	}
	save := res.Status
	res.Status = "partial"
	b, _ := json.MarshalIndent(res, "", " ")
	res.Status = save
	tmp := checkpointPath + ".tmp"
	if os.WriteFile(tmp, b, 0o644) == nil {
		os.Rename(tmp, checkpointPath)
	}
}
