package main

import (
	"fmt"
	"go/types"
	"strings"
)

// ---------------- math ----------------

func fpMaxGo(a, b *Term) *Term {
	if a.IsConst() && b.IsConst() {
		// defer to Go semantics via constant evaluation in caller (kept symbolic-safe here)
	}
	nan := Or(FPIsNaN(a), FPIsNaN(b))
	zeroBoth := And(FPCmp("fp.eq", a, FPConst(0)), FPCmp("fp.eq", b, FPConst(0)))
	aNeg := mkFPIsNeg(a)
	r := Ite(FPCmp("fp.gt", a, b), a, Ite(FPCmp("fp.gt", b, a), b, Ite(zeroBoth, Ite(aNeg, b, a), a)))
	return Ite(nan, FPConst(nanF()), r)
}
func fpMinGo(a, b *Term) *Term {
	nan := Or(FPIsNaN(a), FPIsNaN(b))
	zeroBoth := And(FPCmp("fp.eq", a, FPConst(0)), FPCmp("fp.eq", b, FPConst(0)))
	aNeg := mkFPIsNeg(a)
	r := Ite(FPCmp("fp.lt", a, b), a, Ite(FPCmp("fp.lt", b, a), b, Ite(zeroBoth, Ite(aNeg, a, b), a)))
	return Ite(nan, FPConst(nanF()), r)
}
func nanF() float64 { var z float64; return z / z * 1 }
func mkFPIsNeg(a *Term) *Term {
	if a.IsConst() {
		return BoolConst(a.F < 0 || (a.F == 0 && 1/a.F < 0))
	}
	return mk("fp.isNegative", BoolSort, 0, 0, "", a)
}

func initMathStubs() {
	un := func(f func(e *Exec, st *State, a *Term) *Term) StubFn {
		return func(e *Exec, st *State, fn *Func, args []Value, site string) []Outcome {
			return ret(st, f(e, st, args[0].(*Term)))
		}
	}
	round := func(mode string) StubFn {
		return un(func(e *Exec, st *State, a *Term) *Term {
			if e.fpUF {
				return UF("f64_round_"+mode, RealSort, a)
			}
			if e.fpRelaxed {
				return e.realRound(st, mode, a)
			}
			return FPRound(mode, a)
		})
	}
	stubTable["math.Ceil"] = round("RTP")
	stubTable["math.Floor"] = round("RTN")
	stubTable["math.Trunc"] = round("RTZ")
	stubTable["math.Round"] = round("RNA")
	stubTable["math.RoundToEven"] = round("RNE")
	stubTable["math.Abs"] = un(func(e *Exec, st *State, a *Term) *Term {
		if e.fpRelaxed {
			return Ite(App("<", BoolSort, a, RealConst("0.0")), App("-", RealSort, a), a)
		}
		return FPAbs(a)
	})
	stubTable["math.IsNaN"] = func(e *Exec, st *State, fn *Func, args []Value, site string) []Outcome {
		if e.fpRelaxed {
			return ret(st, False)
		}
		return ret(st, FPIsNaN(args[0].(*Term)))
	}
	stubTable["math.IsInf"] = func(e *Exec, st *State, fn *Func, args []Value, site string) []Outcome {
		if e.fpRelaxed {
			return ret(st, False)
		}
		return ret(st, FPIsInf(args[0].(*Term)))
	}
	stubTable["math.Max"] = func(e *Exec, st *State, fn *Func, args []Value, site string) []Outcome {
		a, b := args[0].(*Term), args[1].(*Term)
		if e.fpRelaxed {
			return ret(st, Ite(App("<", BoolSort, a, b), b, a))
		}
		return ret(st, fpMaxGo(a, b))
	}
	stubTable["math.Min"] = func(e *Exec, st *State, fn *Func, args []Value, site string) []Outcome {
		a, b := args[0].(*Term), args[1].(*Term)
		if e.fpRelaxed {
			return ret(st, Ite(App("<", BoolSort, a, b), a, b))
		}
		return ret(st, fpMinGo(a, b))
	}
	// transcendental: nondeterministic within the documented range
	stubTable["math.Cos"] = func(e *Exec, st *State, fn *Func, args []Value, site string) []Outcome {
		if e.fpRelaxed {
			c := e.fresh("cos", RealSort)
			st.Assume(App("<=", BoolSort, RealConst("(- 1.0)"), c))
			st.Assume(App("<=", BoolSort, c, RealConst("1.0")))
			return ret(st, c)
		}
		c := e.fresh("cos", FPSort)
		st.Assume(FPCmp("fp.leq", FPConst(-1), c))
		st.Assume(FPCmp("fp.leq", c, FPConst(1)))
		return ret(st, c)
	}
	stubTable["math/rand.Float64"] = func(e *Exec, st *State, fn *Func, args []Value, site string) []Outcome {
		if e.fpRelaxed {
			c := e.fresh("rand", RealSort)
			st.Assume(App("<=", BoolSort, RealConst("0.0"), c))
			st.Assume(App("<", BoolSort, c, RealConst("1.0")))
			return ret(st, c)
		}
		c := e.fresh("rand", FPSort)
		st.Assume(FPCmp("fp.leq", FPConst(0), c))
		st.Assume(FPCmp("fp.lt", c, FPConst(1)))
		return ret(st, c)
	}
	stubTable["math/rand.Intn"] = func(e *Exec, st *State, fn *Func, args []Value, site string) []Outcome {
		n := args[0].(*Term)
		bad := BVCmp("bvsle", n, BVConst(0, 64))
		if bad.IsTrue() {
			return e.panicOut(st, e.runtimeError("invalid argument to Intn"), "rand.Intn(n<=0)", site)
		}
		var outs []Outcome
		if !bad.IsFalse() && e.feasible(st, bad) {
			p := st.Clone()
			p.Assume(bad)
			outs = append(outs, e.panicOut(p, e.runtimeError("invalid argument to Intn"), "rand.Intn(n<=0)", site)...)
		}
		st.Assume(Not(bad))
		rs := BV(64)
		if mathInts {
			rs = IntSort
		}
		r := e.fresh("intn", rs)
		st.Assume(BVCmp("bvsle", BVConst(0, 64), r))
		st.Assume(BVCmp("bvslt", r, n))
		return append(outs, ret(st, r)...)
	}
	// Exp / Erfc: uninterpreted with range+monotonicity contracts added by the harness intrinsics
	stubTable["math.Exp"] = func(e *Exec, st *State, fn *Func, args []Value, site string) []Outcome {
		a := args[0].(*Term)
		s := FPSort
		if e.fpRelaxed {
			s = RealSort
		}
		r := UF("math_Exp", s, a)
		e.ufApps["math_Exp"] = append(e.ufApps["math_Exp"], [2]*Term{a, r})
		return ret(st, r)
	}
	stubTable["math.Erfc"] = func(e *Exec, st *State, fn *Func, args []Value, site string) []Outcome {
		a := args[0].(*Term)
		s := FPSort
		if e.fpRelaxed {
			s = RealSort
		}
		r := UF("math_Erfc", s, a)
		e.ufApps["math_Erfc"] = append(e.ufApps["math_Erfc"], [2]*Term{a, r})
		return ret(st, r)
	}
}

// ---------------- time ----------------
// time.Time is modelled as {wall: 0/1 validity flag, ext: int64 nanosecond instant, loc: nil}.
// Saturation of Sub/Add at +-292 years is outside the model (instants are kept < 2^62 by harnesses).

func timeVal(valid *Term, ns *Term) Value {
	return &Struct{[]Value{Ite(valid, BVConst(1, 64), BVConst(0, 64)), ns, Ptr{}}}
}
func timeNs(v Value) *Term    { return v.(*Struct).F[1].(*Term) }
func timeValid(v Value) *Term { return Not(Eq(v.(*Struct).F[0].(*Term), BVConst(0, 64))) }

func initTimeStubs() {
	stubTable["time.Now"] = func(e *Exec, st *State, fn *Func, args []Value, site string) []Outcome {
		return ret(st, timeVal(True, e.clockRead(st, "wall")))
	}
	stubTable["time.Since"] = func(e *Exec, st *State, fn *Func, args []Value, site string) []Outcome {
		now := e.clockRead(st, "wall")
		return ret(st, BVBin("bvsub", now, timeNs(args[0])))
	}
	stubTable[zzp+"Time"] = func(e *Exec, st *State, fn *Func, args []Value, site string) []Outcome {
		return ret(st, timeVal(True, args[0].(*Term)))
	}
	stubTable[zzp+"TimeNs"] = func(e *Exec, st *State, fn *Func, args []Value, site string) []Outcome {
		return ret(st, timeNs(args[0]))
	}
	stubTable["(time.Time).Add"] = func(e *Exec, st *State, fn *Func, args []Value, site string) []Outcome {
		t := args[0].(*Struct)
		return ret(st, &Struct{[]Value{BVConst(1, 64), BVBin("bvadd", timeNs(t), args[1].(*Term)), Ptr{}}})
	}
	stubTable["(time.Time).Sub"] = func(e *Exec, st *State, fn *Func, args []Value, site string) []Outcome {
		return ret(st, BVBin("bvsub", timeNs(args[0]), timeNs(args[1])))
	}
	stubTable["(time.Time).Before"] = func(e *Exec, st *State, fn *Func, args []Value, site string) []Outcome {
		return ret(st, BVCmp("bvslt", timeNs(args[0]), timeNs(args[1])))
	}
	stubTable["(time.Time).After"] = func(e *Exec, st *State, fn *Func, args []Value, site string) []Outcome {
		return ret(st, BVCmp("bvslt", timeNs(args[1]), timeNs(args[0])))
	}
	stubTable["(time.Time).Equal"] = func(e *Exec, st *State, fn *Func, args []Value, site string) []Outcome {
		return ret(st, Eq(timeNs(args[0]), timeNs(args[1])))
	}
	stubTable["(time.Time).IsZero"] = func(e *Exec, st *State, fn *Func, args []Value, site string) []Outcome {
		return ret(st, Not(timeValid(args[0])))
	}
	stubTable["(time.Time).UnixNano"] = func(e *Exec, st *State, fn *Func, args []Value, site string) []Outcome {
		return ret(st, timeNs(args[0]))
	}
	stubTable["(time.Time).Truncate"] = func(e *Exec, st *State, fn *Func, args []Value, site string) []Outcome {
		t := args[0].(*Struct)
		d := args[1].(*Term)
		ns := timeNs(t)
		// documented: d <= 0 returns t unchanged; otherwise rounds down to a multiple of d since the zero time.
		// The model's epoch is the zero time itself (instants are non-negative in harnesses).
		pos := BVCmp("bvslt", BVConst(0, 64), d)
		safeD := Ite(pos, d, BVConst(1, 64))
		var tr *Term
		if mathInts {
			// Truncate rounds down relative to Go's ZERO time (year 1), while the model's instants count from
			// the Unix epoch: the two origins are 62135596800 s apart
			off := App("*", IntSort, IntConst(62135596800), IntConst(1000000000)) // not folded: exceeds int64
			sh := intBin("bvadd", ns, off)
			tr = intBin("bvsub", ns, App("mod", IntSort, sh, safeD))
		} else {
			// bit-vector mode: the origin offset does not fit in 64 bits; durations dividing 24h are exact
			tr = BVBin("bvsub", ns, BVBin("bvsrem", ns, safeD))
		}
		return ret(st, &Struct{[]Value{t.F[0], Ite(pos, tr, ns), Ptr{}}})
	}
	stubTable["(time.Duration).String"] = func(e *Exec, st *State, fn *Func, args []Value, site string) []Outcome {
		return ret(st, UF("Duration_String", StringSort, args[0].(*Term)))
	}
	stubTable["time.Sleep"] = stubZero
	// process environment (keys must be concrete): unset = ""
	envKey := func(v Value) string {
		k := v.(*Term)
		if !k.IsConst() {
			fail("environment variable name must be concrete")
		}
		return k.S
	}
	stubTable["os.Setenv"] = func(e *Exec, st *State, fn *Func, args []Value, site string) []Outcome {
		k := envKey(args[0])
		if e.conc != nil {
			e.conc.envOp(e, st, "set", k, args[1].(*Term), site)
		} else {
			if st.Ghost == nil {
				st.Ghost = map[string]Value{}
			}
			st.Ghost["env:"+k] = args[1]
		}
		return ret(st, Iface{})
	}
	stubTable["os.Unsetenv"] = func(e *Exec, st *State, fn *Func, args []Value, site string) []Outcome {
		k := envKey(args[0])
		if e.conc != nil {
			e.conc.envOp(e, st, "set", k, StrConst(""), site)
		} else if st.Ghost != nil {
			st.Ghost["env:"+k] = StrConst("")
		}
		return ret(st, Iface{})
	}
	stubTable["os.Getenv"] = func(e *Exec, st *State, fn *Func, args []Value, site string) []Outcome {
		k := envKey(args[0])
		if e.conc != nil {
			return ret(st, e.conc.envOp(e, st, "get", k, nil, site))
		}
		if v, ok := st.Ghost["env:"+k]; ok {
			return ret(st, v)
		}
		return ret(st, StrConst(""))
	}
	// tickers and timers: the channel is driven by the environment (see conc.go); d <= 0 panics for NewTicker
	mkTimer := func(kind string) StubFn {
		return func(e *Exec, st *State, fn *Func, args []Value, site string) []Outcome {
			d := args[0].(*Term)
			var outs []Outcome
			if kind == "ticker" {
				bad := BVCmp("bvsle", d, BVConst(0, 64))
				if bad.IsTrue() {
					return e.panicOut(st, e.stubPanicValue(st, "non-positive interval for NewTicker"), "time.NewTicker: non-positive interval", site)
				}
				if !bad.IsFalse() && e.feasible(st, bad) {
					p := st.Clone()
					p.Assume(bad)
					outs = append(outs, e.panicOut(p, e.stubPanicValue(p, "non-positive interval for NewTicker"), "time.NewTicker: non-positive interval", site)...)
				}
				st.Assume(Not(bad))
			}
			rt := fn.Fn.Signature.Results().At(0).Type()
			chid := e.newObj(st, &Opaque{"chan"})
			if e.conc != nil {
				e.conc.chans[chid] = &chanInfo{id: chid, kind: kind, aux: d}
				ev := e.conc.emit(st, "arm", fmt.Sprintf("ch:%d", chid), site)
				ev.Val = d
			}
			e.ghostLog(st, "time."+kind, &Struct{[]Value{d}})
			if pt, ok := rt.(*types.Pointer); ok {
				zv := e.zero(pt.Elem()).(*Struct)
				f := append([]Value(nil), zv.F...)
				stt := pt.Elem().Underlying().(*types.Struct)
				for i := 0; i < stt.NumFields(); i++ {
					if stt.Field(i).Name() == "C" {
						f[i] = ChanRef{chid}
					}
				}
				return append(outs, ret(st, Ptr{Obj: e.newObj(st, &Struct{f})})...)
			}
			return append(outs, ret(st, ChanRef{chid})...) // time.After
		}
	}
	stubTable["time.NewTicker"] = mkTimer("ticker")
	stubTable["time.NewTimer"] = mkTimer("timer")
	stubTable["time.After"] = mkTimer("timer")
	stopFn := func(e *Exec, st *State, fn *Func, args []Value, site string) []Outcome {
		p := args[0].(Ptr)
		if p.IsNil() {
			return e.panicOut(st, e.runtimeError("invalid memory address or nil pointer dereference"), "Stop on nil ticker/timer", site)
		}
		tv := e.load(st, p).(*Struct)
		var ch ChanRef
		for _, f := range tv.F {
			if c, ok := f.(ChanRef); ok {
				ch = c
			}
		}
		if e.conc != nil && ch.Obj != 0 {
			e.conc.emit(st, "stoptimer", fmt.Sprintf("ch:%d", ch.Obj), site)
		}
		e.ghostLog(st, "time.stop", &Struct{[]Value{BVConst(uint64(ch.Obj), 64)}})
		if fn.Fn.Signature.Results().Len() == 1 {
			return ret(st, e.fresh("stopped", BoolSort))
		}
		return ret(st)
	}
	resetFn := func(e *Exec, st *State, fn *Func, args []Value, site string) []Outcome {
		p := args[0].(Ptr)
		if p.IsNil() {
			return e.panicOut(st, e.runtimeError("invalid memory address or nil pointer dereference"), "Reset on nil ticker/timer", site)
		}
		tv := e.load(st, p).(*Struct)
		var ch ChanRef
		for _, f := range tv.F {
			if c, ok := f.(ChanRef); ok {
				ch = c
			}
		}
		if e.conc != nil && ch.Obj != 0 {
			ev := e.conc.emit(st, "arm", fmt.Sprintf("ch:%d", ch.Obj), site)
			ev.Val = args[1].(*Term)
		}
		e.ghostLog(st, "time.reset", &Struct{[]Value{BVConst(uint64(ch.Obj), 64), args[1]}})
		if fn.Fn.Signature.Results().Len() == 1 {
			return ret(st, e.fresh("wasactive", BoolSort))
		}
		return ret(st)
	}
	stubTable["(*time.Timer).Reset"] = resetFn
	stubTable["(*time.Ticker).Reset"] = resetFn
	stubTable["(*time.Ticker).Stop"] = stopFn
	stubTable["(*time.Timer).Stop"] = stopFn
}

// ---------------- strings / strconv ----------------

func initStringStubs() {
	stubTable["strings.Contains"] = func(e *Exec, st *State, fn *Func, args []Value, site string) []Outcome {
		return ret(st, strContains(args[0].(*Term), args[1].(*Term)))
	}
	stubTable["strings.Index"] = func(e *Exec, st *State, fn *Func, args []Value, site string) []Outcome {
		s, sub := args[0].(*Term), args[1].(*Term)
		idx := strIndexOf(s, sub)
		if !idx.IsConst() {
			// theory facts that solvers are slow to derive: the index is -1 exactly when the substring is absent,
			// otherwise it lies inside the string
			st.Assume(Eq(strContains(s, sub), intLe(IntConst(0), idx)))
			st.Assume(intLe(IntConst(-1), idx))
			st.Assume(intLe(intAdd(idx, strLenInt(sub)), strLenInt(s)))
		}
		return ret(st, intToBV(idx, 64))
	}
	stubTable["strings.HasPrefix"] = func(e *Exec, st *State, fn *Func, args []Value, site string) []Outcome {
		s, p := args[0].(*Term), args[1].(*Term)
		if s.IsConst() && p.IsConst() {
			return ret(st, BoolConst(strings.HasPrefix(s.S, p.S)))
		}
		return ret(st, App("str.prefixof", BoolSort, p, s))
	}
	stubTable["strings.HasSuffix"] = func(e *Exec, st *State, fn *Func, args []Value, site string) []Outcome {
		s, p := args[0].(*Term), args[1].(*Term)
		if s.IsConst() && p.IsConst() {
			return ret(st, BoolConst(strings.HasSuffix(s.S, p.S)))
		}
		return ret(st, App("str.suffixof", BoolSort, p, s))
	}
	stubTable["strings.ReplaceAll"] = func(e *Exec, st *State, fn *Func, args []Value, site string) []Outcome {
		s, a, b := args[0].(*Term), args[1].(*Term), args[2].(*Term)
		if s.IsConst() && a.IsConst() && b.IsConst() {
			return ret(st, StrConst(strings.ReplaceAll(s.S, a.S, b.S)))
		}
		return ret(st, App("str.replace_all", StringSort, s, a, b))
	}
	stubTable["strings.ToLower"] = func(e *Exec, st *State, fn *Func, args []Value, site string) []Outcome {
		s := args[0].(*Term)
		if s.IsConst() {
			return ret(st, StrConst(strings.ToLower(s.S)))
		}
		return ret(st, UF("strings_ToLower", StringSort, s))
	}
	stubTable["strings.ToUpper"] = func(e *Exec, st *State, fn *Func, args []Value, site string) []Outcome {
		s := args[0].(*Term)
		if s.IsConst() {
			return ret(st, StrConst(strings.ToUpper(s.S)))
		}
		return ret(st, UF("strings_ToUpper", StringSort, s))
	}
	// sort.Slice / sort.SliceStable: insertion sort driven by the real less closure (its answers must be concrete).
	// sort.Slice is not stable: for elements that compare equal every resulting order is possible; the model keeps
	// their incoming order, which together with symbolic map-iteration orders covers the relevant cases.
	sortSlice := func(e *Exec, st *State, fn *Func, args []Value, site string) []Outcome {
		iv := args[0].(Iface)
		sl, ok := iv.V.(Slice)
		if !ok {
			fail("sort.Slice on non-slice")
		}
		less := args[1]
		n := sl.Len
		for i := 1; i < n; i++ {
			for j := i; j > 0; j-- {
				outs := e.callValue(st, less, []Value{BVConst(uint64(j), 64), BVConst(uint64(j-1), 64)}, false, site)
				if len(outs) != 1 || outs[0].kind != oReturn {
					fail("sort.Slice: less function forked or panicked")
				}
				st = outs[0].st
				r := outs[0].vals[0].(*Term)
				if !r.IsConst() {
					fail("sort.Slice: symbolic comparison result")
				}
				if r.IsFalse() {
					break
				}
				arr := e.objContent(st, sl.Arr).(*Struct)
				f := append([]Value(nil), arr.F...)
				f[sl.Off+j], f[sl.Off+j-1] = f[sl.Off+j-1], f[sl.Off+j]
				st.Heap[sl.Arr] = &Struct{f}
			}
		}
		return ret(st)
	}
	stubTable["sort.Slice"] = sortSlice
	stubTable["sort.SliceStable"] = sortSlice
	stubTable["strings.Join"] = func(e *Exec, st *State, fn *Func, args []Value, site string) []Outcome {
		s := args[0].(Slice)
		sep := args[1].(*Term)
		var acc *Term = StrConst("")
		if s.Arr != 0 {
			arr := e.objContent(st, s.Arr).(*Struct)
			for i := 0; i < s.Len; i++ {
				if i > 0 {
					acc = strConcat(acc, sep)
				}
				acc = strConcat(acc, arr.F[s.Off+i].(*Term))
			}
		}
		return ret(st, acc)
	}
}

var _ = types.Typ

// ---- sync.Map (sequential mode): an association list with concrete key equality, backed by the engine's map model ----

func (e *Exec) syncMapRef(st *State, p Ptr) MapRef {
	if e.conc != nil {
		fail("sync.Map in concurrent mode unsupported")
	}
	key := fmt.Sprintf("syncmap:%d%s", p.Obj, p.Path)
	if st.Ghost == nil {
		st.Ghost = map[string]Value{}
	}
	if m, ok := st.Ghost[key].(MapRef); ok {
		return m
	}
	m := MapRef{e.newObj(st, &MapData{})}
	st.Ghost[key] = m
	return m
}

func (e *Exec) syncMapFind(st *State, m MapRef, key Value) (int, bool) {
	md := e.objContent(st, m.Obj).(*MapData)
	for i := range md.Keys {
		c := e.eqVal(md.Keys[i], key)
		if c.IsTrue() {
			return i, true
		}
		if !c.IsFalse() {
			fail("sync.Map: symbolic key comparison")
		}
	}
	return -1, false
}

func initSyncMapStubs() {
	stubTable["(*sync.Map).Load"] = func(e *Exec, st *State, fn *Func, args []Value, site string) []Outcome {
		m := e.syncMapRef(st, args[0].(Ptr))
		if i, ok := e.syncMapFind(st, m, args[1]); ok {
			return ret(st, e.objContent(st, m.Obj).(*MapData).Vals[i], True)
		}
		return ret(st, Iface{}, False)
	}
	stubTable["(*sync.Map).Store"] = func(e *Exec, st *State, fn *Func, args []Value, site string) []Outcome {
		e.mapSet(st, e.syncMapRef(st, args[0].(Ptr)), args[1], args[2])
		return ret(st)
	}
	stubTable["(*sync.Map).LoadOrStore"] = func(e *Exec, st *State, fn *Func, args []Value, site string) []Outcome {
		m := e.syncMapRef(st, args[0].(Ptr))
		if i, ok := e.syncMapFind(st, m, args[1]); ok {
			return ret(st, e.objContent(st, m.Obj).(*MapData).Vals[i], True)
		}
		e.mapSet(st, m, args[1], args[2])
		return ret(st, args[2], False)
	}
	stubTable["(*sync.Map).Delete"] = func(e *Exec, st *State, fn *Func, args []Value, site string) []Outcome {
		m := e.syncMapRef(st, args[0].(Ptr))
		if i, ok := e.syncMapFind(st, m, args[1]); ok {
			md := e.objContent(st, m.Obj).(*MapData)
			nd := &MapData{}
			for j := range md.Keys {
				if j != i {
					nd.Keys = append(nd.Keys, md.Keys[j])
					nd.Vals = append(nd.Vals, md.Vals[j])
				}
			}
			st.Heap[m.Obj] = nd
		}
		return ret(st)
	}
	stubTable["(*sync.Map).Clear"] = func(e *Exec, st *State, fn *Func, args []Value, site string) []Outcome {
		m := e.syncMapRef(st, args[0].(Ptr))
		st.Heap[m.Obj] = &MapData{}
		return ret(st)
	}
}
