package main

import "go/token"

// Relaxed-real float mode: every float operation yields a fresh real constrained by the
// IEEE-754 correct-rounding bound |r - exact| <= 2^-53 * |exact| (normal range).

const relEps = "(/ 1.0 9007199254740992.0)" // 2^-53

func (e *Exec) rounded(st *State, exact *Term) *Term {
	r := e.fresh("fl", RealSort)
	eps := RealConst(relEps)
	absx := Ite(App("<", BoolSort, exact, RealConst("0.0")), App("-", RealSort, exact), exact)
	bound := App("*", RealSort, eps, absx)
	st.Assume(App("<=", BoolSort, App("-", RealSort, exact, bound), r))
	st.Assume(App("<=", BoolSort, r, App("+", RealSort, exact, bound)))
	return r
}

func (e *Exec) realBinop(st *State, op token.Token, a, b *Term) *Term {
	switch op {
	case token.ADD:
		return e.rounded(st, App("+", RealSort, a, b))
	case token.SUB:
		return e.rounded(st, App("-", RealSort, a, b))
	case token.MUL:
		return e.rounded(st, App("*", RealSort, a, b))
	case token.QUO:
		return e.rounded(st, App("/", RealSort, a, b))
	case token.LSS:
		return App("<", BoolSort, a, b)
	case token.LEQ:
		return App("<=", BoolSort, a, b)
	case token.GTR:
		return App("<", BoolSort, b, a)
	case token.GEQ:
		return App("<=", BoolSort, b, a)
	}
	fail("real binop %v", op)
	return nil
}

// int -> float: exact for |x| < 2^53 (harness states this), else rounded
func (e *Exec) intToReal(st *State, t *Term, signed bool) *Term {
	var i *Term
	if t.IsConst() {
		if signed {
			return realOfFloat(float64(t.SVal()))
		}
		return realOfFloat(float64(t.U))
	}
	if signed {
		neg := BVCmp("bvslt", t, BVConst(0, t.Sort.W))
		i = Ite(neg, App("-", IntSort, App("bv2nat", IntSort, BVNeg(t))), App("bv2nat", IntSort, t))
	} else {
		i = App("bv2nat", IntSort, t)
	}
	return e.rounded(st, App("to_real", RealSort, i))
}

// float -> int (truncation toward zero)
func (e *Exec) realToInt(st *State, t *Term, w int, signed bool) *Term {
	fl := App("to_int", IntSort, t) // floor
	isInt := App("is_int", BoolSort, t)
	neg := App("<", BoolSort, t, RealConst("0.0"))
	tr := Ite(And(neg, Not(isInt)), App("+", IntSort, fl, IntConst(1)), fl)
	// two's complement conversion: int2bv works modulo 2^w
	return mk("int2bv", BV(w), 0, 0, "", tr)
}

func (e *Exec) realRound(st *State, mode string, a *Term) *Term {
	fl := App("to_real", RealSort, App("to_int", IntSort, a))
	isInt := App("is_int", BoolSort, a)
	one := RealConst("1.0")
	switch mode {
	case "RTN":
		return fl
	case "RTP":
		return Ite(isInt, a, App("+", RealSort, fl, one))
	case "RTZ":
		neg := App("<", BoolSort, a, RealConst("0.0"))
		return Ite(And(neg, Not(isInt)), App("+", RealSort, fl, one), fl)
	case "RNA":
		// round half away from zero
		half := RealConst("0.5")
		neg := App("<", BoolSort, a, RealConst("0.0"))
		up := App("to_real", RealSort, App("to_int", IntSort, App("+", RealSort, a, half)))
		dn := App("-", RealSort, App("to_real", RealSort, App("to_int", IntSort, App("+", RealSort, App("-", RealSort, a), half))))
		return Ite(neg, dn, up)
	}
	fail("realRound mode %s", mode)
	return nil
}
