package main

import (
	"fmt"
	"strings"
	"go/token"
)

// Relaxed-real float mode: every float operation yields a fresh real constrained by the
// IEEE-754 correct-rounding bound |r - exact| <= 2^-53 * |exact| (normal range).

const relEps = "(/ 1.0 9007199254740992.0)" // 2^-53

var roundedCache = map[int]*Term{}

// roundedPairs: (exact, rounded) for every relaxed float operation of the run (used to look for a witness with zero
// rounding error first: it is one of the allowed behaviours and much easier for the non-linear solver)
var roundedPairs [][2]*Term

func (e *Exec) rounded(st *State, exact *Term) *Term {
	if exact.IsConst() {
		return exact
	}
	// floating-point operations are functions: the same exact operand term always rounds to the same value
	r, ok := roundedCache[exact.ID]
	if !ok {
		r = e.fresh("fl", RealSort)
		roundedCache[exact.ID] = r
		roundedPairs = append(roundedPairs, [2]*Term{exact, r})
	}
	eps := RealConst(relEps)
	absx := Ite(App("<", BoolSort, exact, RealConst("0.0")), App("-", RealSort, exact), exact)
	bound := App("*", RealSort, eps, absx)
	st.Assume(App("<=", BoolSort, App("-", RealSort, exact, bound), r))
	st.Assume(App("<=", BoolSort, r, App("+", RealSort, exact, bound)))
	return r
}

func (e *Exec) realBinop(st *State, op token.Token, a, b *Term) *Term {
	if e.fpUF {
		// floating-point operators as uninterpreted functions (only functional consistency is used)
		switch op {
		case token.ADD:
			return UF("f64_add", RealSort, a, b)
		case token.SUB:
			return UF("f64_sub", RealSort, a, b)
		case token.MUL:
			return UF("f64_mul", RealSort, a, b)
		case token.QUO:
			return UF("f64_div", RealSort, a, b)
		}
	}
	switch op {
	case token.ADD:
		return e.rounded(st, App("+", RealSort, a, b))
	case token.SUB:
		return e.rounded(st, App("-", RealSort, a, b))
	case token.MUL:
		return e.rounded(st, App("*", RealSort, a, b))
	case token.QUO:
		return e.rounded(st, App("/", RealSort, a, b))
	case token.LSS:
		return App("<", BoolSort, a, b)
	case token.LEQ:
		return App("<=", BoolSort, a, b)
	case token.GTR:
		return App("<", BoolSort, b, a)
	case token.GEQ:
		return App("<=", BoolSort, b, a)
	}
	fail("real binop %v", op)
	return nil
}

// int -> float: exact for |x| < 2^53 (harness states this), else rounded
func (e *Exec) intToReal(st *State, t *Term, signed bool) *Term {
	var i *Term
	if t.Sort.K == SInt {
		if t.IsConst() {
			return realOfFloat(float64(int64(t.U)))
		}
		// exact for |x| < 2^53 (harnesses in this mode bound their integers accordingly)
		return App("to_real", RealSort, t)
	}
	if t.IsConst() {
		if signed {
			return realOfFloat(float64(t.SVal()))
		}
		return realOfFloat(float64(t.U))
	}
	if signed {
		neg := BVCmp("bvslt", t, BVConst(0, t.Sort.W))
		i = Ite(neg, App("-", IntSort, App("bv2nat", IntSort, BVNeg(t))), App("bv2nat", IntSort, t))
	} else {
		i = App("bv2nat", IntSort, t)
	}
	return e.rounded(st, App("to_real", RealSort, i))
}

// float -> int (truncation toward zero)
func (e *Exec) realToInt(st *State, t *Term, w int, signed bool) *Term {
	var tr *Term
	switch {
	case t.Op == "to_real":
		tr = t.Args[0] // already integral
	case t.Op == "uf" && strings.HasPrefix(t.S, "f64_round_"):
		tr = UF("f64_toint", IntSort, t)
	case t.Op == "ite":
		a := e.realToInt(st, t.Args[1], w, signed)
		b := e.realToInt(st, t.Args[2], w, signed)
		return Ite(t.Args[0], a, b)
	case t.Op == "realconst" && (t.S == "0.0" || t.S == "1.0"):
		tr = IntConst(map[string]int64{"0.0": 0, "1.0": 1}[t.S])
	default:
		if e.fpUF {
			tr = UF("f64_toint", IntSort, t)
		} else {
			tr = e.roundInt(st, "RTZ", t)
		}
	}
	if mathInts {
		return tr
	}
	// two's complement conversion: int2bv works modulo 2^w
	return mk("int2bv", BV(w), 0, 0, "", tr)
}

var roundIntCache = map[string]*Term{}

// roundInt returns a fresh Int k constrained (linearly) to be the rounding of real a in the given mode.
func (e *Exec) roundInt(st *State, mode string, a *Term) *Term {
	if a.Op == "to_real" {
		return a.Args[0]
	}
	key := mode + ":" + fmt.Sprint(a.ID)
	k, ok := roundIntCache[key]
	if !ok {
		k = e.fresh("round", IntSort)
		roundIntCache[key] = k
	}
	kr := App("to_real", RealSort, k)
	lt := func(x, y *Term) *Term { return App("<", BoolSort, x, y) }
	le := func(x, y *Term) *Term { return App("<=", BoolSort, x, y) }
	plus := func(x *Term, c string) *Term { return App("+", RealSort, x, RealConst(c)) }
	minus := func(x *Term, c string) *Term { return App("-", RealSort, x, RealConst(c)) }
	neg := lt(a, RealConst("0.0"))
	switch mode {
	case "RTN": // floor: k <= a < k+1
		st.Assume(And(le(kr, a), lt(a, plus(kr, "1.0"))))
	case "RTP": // ceil: k-1 < a <= k
		st.Assume(And(lt(minus(kr, "1.0"), a), le(a, kr)))
	case "RTZ": // trunc
		st.Assume(Ite(neg, And(lt(minus(kr, "1.0"), a), le(a, kr)), And(le(kr, a), lt(a, plus(kr, "1.0")))))
	case "RNA": // round half away from zero
		st.Assume(Ite(neg, And(lt(minus(kr, "0.5"), a), le(a, plus(kr, "0.5"))), And(le(minus(kr, "0.5"), a), lt(a, plus(kr, "0.5")))))
	default:
		fail("roundInt mode %s", mode)
	}
	return k
}

func (e *Exec) realRound(st *State, mode string, a *Term) *Term {
	return App("to_real", RealSort, e.roundInt(st, mode, a))
}
