package main

import (
	"regexp"
	"strconv"
	"strings"
	"time"
)

// String-level models of the standard-library parsers used on user input. Acceptance is a regular language taken
// from the functions' documentation; values are exact where SMT offers the function (str.to_int) and otherwise an
// uninterpreted function of the text constrained in sign/zero-ness.

func reRange(a, b string) string { return `(re.range "` + a + `" "` + b + `")` }

var (
	reDigit  = reRange("0", "9")
	reDigits = "(re.+ " + reDigit + ")"
	reSign   = `(re.opt (re.union (str.to_re "+") (str.to_re "-")))`
	reInt    = "(re.++ " + reSign + " " + reDigits + ")"
	reUnit   = `(re.union (str.to_re "ns") (str.to_re "us") (str.to_re "\\u{b5}s") (str.to_re "\\u{3bc}s") (str.to_re "ms") (str.to_re "s") (str.to_re "m") (str.to_re "h"))`
	// number: digits [ . digits* ] | . digits+
	reNum = "(re.union (re.++ " + reDigits + ` (re.opt (re.++ (str.to_re ".") (re.* ` + reDigit + `)))) (re.++ (str.to_re ".") ` + reDigits + "))"
	reDur = `(re.union (re.++ ` + reSign + ` (str.to_re "0")) (re.++ ` + reSign + " (re.+ (re.++ " + reNum + " " + reUnit + "))))"
	// all-zero duration: every digit is 0
	reZeroNum = `(re.union (re.++ (re.+ (str.to_re "0")) (re.opt (re.++ (str.to_re ".") (re.* (str.to_re "0"))))) (re.++ (str.to_re ".") (re.+ (str.to_re "0"))))`
	reZeroDur = `(re.union (re.++ ` + reSign + ` (str.to_re "0")) (re.++ ` + reSign + " (re.+ (re.++ " + reZeroNum + " " + reUnit + "))))"
	reFloat   = "(re.++ " + reSign + " " + reNum + ` (re.opt (re.++ (re.union (str.to_re "e") (str.to_re "E")) ` + reSign + " " + reDigits + ")))"
	reSpace   = `(re.union (str.to_re " ") (str.to_re "\u{9}") (str.to_re "\u{a}") (str.to_re "\u{d}"))`
)

func inRe(s *Term, re string) *Term {
	return mk("raw", BoolSort, 0, 0, "(str.in_re "+s.ref()+" "+re+")", s)
}

func initStringParserStubs() {
	stubTable["strconv.Atoi"] = func(e *Exec, st *State, fn *Func, args []Value, site string) []Outcome {
		s := args[0].(*Term)
		if s.IsConst() {
			v, err := strconv.Atoi(s.S)
			if err != nil {
				return ret(st, BVConst(0, 64), e.stubError(st, StrConst("strconv.Atoi: parsing "+strconv.Quote(s.S)+": invalid syntax"), nil))
			}
			return ret(st, BVConst(uint64(int64(v)), 64), Iface{})
		}
		okc := inRe(s, reInt)
		// value (strings are short: no overflow): sign handling on top of str.to_int
		neg := App("str.prefixof", BoolSort, StrConst("-"), s)
		pos := App("str.prefixof", BoolSort, StrConst("+"), s)
		body := Ite(Or(neg, pos), App("str.substr", StringSort, s, IntConst(1), App("-", IntSort, App("str.len", IntSort, s), IntConst(1))), s)
		mag := App("str.to_int", IntSort, body)
		vi := Ite(neg, App("-", IntSort, mag), mag)
		var val *Term
		if mathInts {
			val = vi
		} else {
			// two's complement of a possibly negative mathematical integer
			val = Ite(neg, BVNeg(mk("int2bv", BV(64), 0, 0, "", mag)), mk("int2bv", BV(64), 0, 0, "", mag))
		}
		_ = vi
		s2 := st.Clone()
		var outs []Outcome
		if e.feasible(st, okc) {
			st.Assume(okc)
			outs = append(outs, ret(st, val, Iface{})...)
		}
		if e.feasible(s2, Not(okc)) {
			s2.Assume(Not(okc))
			outs = append(outs, ret(s2, BVConst(0, 64), e.stubError(s2, e.fresh("atoierr", StringSort), nil))...)
		}
		return outs
	}
	stubTable["time.ParseDuration"] = func(e *Exec, st *State, fn *Func, args []Value, site string) []Outcome {
		s := args[0].(*Term)
		if s.IsConst() {
			d, err := time.ParseDuration(s.S)
			if err != nil {
				return ret(st, BVConst(0, 64), e.stubError(st, StrConst("time: invalid duration "+strconv.Quote(s.S)), nil))
			}
			return ret(st, BVConst(uint64(int64(d)), 64), Iface{})
		}
		okc := inRe(s, reDur)
		var val *Term
		if mathInts {
			val = UF("time_ParseDuration", IntSort, s)
		} else {
			val = UF("time_ParseDuration", BV(64), s)
		}
		zero := BVConst(0, 64)
		isZero := inRe(s, reZeroDur)
		neg := App("str.prefixof", BoolSort, StrConst("-"), s)
		s2 := st.Clone()
		var outs []Outcome
		if e.feasible(st, okc) {
			st.Assume(okc)
			// sign / zero-ness of the value follow the text (magnitudes are otherwise uninterpreted; short strings
			// cannot overflow)
			st.Assume(Eq(Eq(val, zero), isZero))
			st.Assume(Implies(Not(isZero), Eq(BVCmp("bvslt", val, zero), neg)))
			outs = append(outs, ret(st, val, Iface{})...)
		}
		if e.feasible(s2, Not(okc)) {
			s2.Assume(Not(okc))
			outs = append(outs, ret(s2, zero, e.stubError(s2, e.fresh("durerr", StringSort), nil))...)
		}
		return outs
	}
	stubTable["strconv.ParseFloat"] = func(e *Exec, st *State, fn *Func, args []Value, site string) []Outcome {
		s := args[0].(*Term)
		fs := FPSort
		if e.fpRelaxed {
			fs = RealSort
		}
		var zero Value = e.zero(fn.Fn.Signature.Results().At(0).Type())
		if s.IsConst() {
			f, err := strconv.ParseFloat(s.S, 64)
			if err != nil {
				return ret(st, zero, e.stubError(st, StrConst("strconv.ParseFloat: invalid syntax"), nil))
			}
			if e.fpRelaxed {
				return ret(st, realOfFloat(f), Iface{})
			}
			return ret(st, FPConst(f), Iface{})
		}
		okc := inRe(s, reFloat) // (inf/nan/hex/underscore forms are outside the model: treated as rejected)
		val := UF("strconv_ParseFloat", fs, s)
		s2 := st.Clone()
		var outs []Outcome
		if e.feasible(st, okc) {
			st.Assume(okc)
			outs = append(outs, ret(st, val, Iface{})...)
		}
		if e.feasible(s2, Not(okc)) {
			s2.Assume(Not(okc))
			outs = append(outs, ret(s2, zero, e.stubError(s2, e.fresh("floaterr", StringSort), nil))...)
		}
		return outs
	}
	stubTable["strings.TrimSpace"] = func(e *Exec, st *State, fn *Func, args []Value, site string) []Outcome {
		s := args[0].(*Term)
		if s.IsConst() {
			return ret(st, StrConst(strings.TrimSpace(s.S)))
		}
		pre, mid, post := e.fresh("ts_pre", StringSort), e.fresh("ts_mid", StringSort), e.fresh("ts_post", StringSort)
		st.Assume(Eq(s, App("str.++", StringSort, pre, mid, post)))
		st.Assume(inRe(pre, "(re.* "+reSpace+")"))
		st.Assume(inRe(post, "(re.* "+reSpace+")"))
		notSpaceEdge := "(re.union (str.to_re \"\") (re.comp (re.union (re.++ " + reSpace + " re.all) (re.++ re.all " + reSpace + "))))"
		st.Assume(inRe(mid, notSpaceEdge))
		return ret(st, mid)
	}
	stubTable["strings.Split"] = func(e *Exec, st *State, fn *Func, args []Value, site string) []Outcome {
		s, sep := args[0].(*Term), args[1].(*Term)
		mkSlice := func(s0 *State, parts []Value) Value {
			id := e.newObj(s0, &Struct{parts})
			return Slice{Arr: id, Len: len(parts), Cap: len(parts)}
		}
		if s.IsConst() && sep.IsConst() {
			var parts []Value
			for _, p := range strings.Split(s.S, sep.S) {
				parts = append(parts, StrConst(p))
			}
			return ret(st, mkSlice(st, parts))
		}
		if !sep.IsConst() || len(sep.S) == 0 {
			fail("strings.Split with symbolic or empty separator")
		}
		maxParts := 4
		if v, err := strconv.Atoi(e.cfg["splitmax"]); err == nil && v > 0 {
			maxParts = v
		}
		var outs []Outcome
		cur := st
		rest := s
		var parts []Value
		for i := 0; i < maxParts; i++ {
			has := strContains(rest, sep)
			// path: no further separator -> rest is the last part
			last := cur.Clone()
			if e.feasible(last, Not(has)) {
				last.Assume(Not(has))
				outs = append(outs, ret(last, mkSlice(last, append(append([]Value(nil), parts...), rest)))...)
			}
			if i == maxParts-1 || !e.feasible(cur, has) {
				if i == maxParts-1 && e.feasible(cur, has) {
					e.issues = append(e.issues, Issue{"bound", "strings.Split: inputs with more than " + strconv.Itoa(maxParts) + " parts are outside the bound (" + site + ")"})
				}
				break
			}
			cur.Assume(has)
			idx := strIndexOf(rest, sep)
			parts = append(parts, strSubstr(rest, IntConst(0), idx))
			off := intAdd(idx, IntConst(int64(len(sep.S))))
			rest = strSubstr(rest, off, intSub(strLenInt(rest), off))
		}
		e.forks += len(outs) - 1
		return outs
	}
	stubTable["regexp.MustCompile"] = func(e *Exec, st *State, fn *Func, args []Value, site string) []Outcome {
		p := args[0].(*Term)
		if !p.IsConst() {
			fail("regexp.MustCompile with symbolic pattern")
		}
		id := e.newObj(st, &Struct{[]Value{p}})
		return ret(st, Ptr{Obj: id})
	}
	stubTable["(*regexp.Regexp).MatchString"] = func(e *Exec, st *State, fn *Func, args []Value, site string) []Outcome {
		pat := e.objContent(st, args[0].(Ptr).Obj).(*Struct).F[0].(*Term).S
		s := args[1].(*Term)
		re, ok := regexToSMT(pat)
		if ok {
			if s.IsConst() {
				m, err := regexp.MatchString(pat, s.S)
				if err == nil {
					return ret(st, BoolConst(m))
				}
			}
			return ret(st, inRe(s, re))
		}
		fail("regexp pattern %q has no model", pat)
		return nil
	}
}

// regexToSMT translates a small regular-expression subset (anchored ^...$ patterns made of literals, character
// classes [a-z0-9_], and the postfix operators + * ?) to an SMT-LIB regular expression.
func regexToSMT(pat string) (string, bool) {
	if !strings.HasPrefix(pat, "^") || !strings.HasSuffix(pat, "$") {
		return "", false
	}
	body := pat[1 : len(pat)-1]
	var parts []string
	i := 0
	for i < len(body) {
		var atom string
		c := body[i]
		switch {
		case c == '[':
			j := strings.IndexByte(body[i:], ']')
			if j < 0 {
				return "", false
			}
			cls := body[i+1 : i+j]
			i += j + 1
			if strings.HasPrefix(cls, "^") {
				return "", false
			}
			var alts []string
			for k := 0; k < len(cls); k++ {
				if k+2 < len(cls) && cls[k+1] == '-' {
					alts = append(alts, reRange(string(cls[k]), string(cls[k+2])))
					k += 2
				} else {
					alts = append(alts, `(str.to_re "`+string(cls[k])+`")`)
				}
			}
			if len(alts) == 1 {
				atom = alts[0]
			} else {
				atom = "(re.union " + strings.Join(alts, " ") + ")"
			}
		case strings.ContainsRune(`()|.\{}`, rune(c)):
			return "", false
		case c == '+' || c == '*' || c == '?':
			return "", false
		default:
			atom = `(str.to_re "` + string(c) + `")`
			i++
		}
		if i < len(body) {
			switch body[i] {
			case '+':
				atom = "(re.+ " + atom + ")"
				i++
			case '*':
				atom = "(re.* " + atom + ")"
				i++
			case '?':
				atom = "(re.opt " + atom + ")"
				i++
			}
		}
		parts = append(parts, atom)
	}
	if len(parts) == 0 {
		return `(str.to_re "")`, true
	}
	if len(parts) == 1 {
		return parts[0], true
	}
	return "(re.++ " + strings.Join(parts, " ") + ")", true
}
