package main

import (
	"regexp"
	"strconv"
	"strings"
	"time"
)

// String-level models of the standard-library parsers used on user input. Acceptance is a regular language taken
// from the functions' documentation; values are exact where SMT offers the function (str.to_int) and otherwise an
// uninterpreted function of the text constrained in sign/zero-ness.

func reRange(a, b string) string { return `(re.range "` + a + `" "` + b + `")` }

var (
	reDigit  = reRange("0", "9")
	reDigits = "(re.+ " + reDigit + ")"
	reSign   = `(re.opt (re.union (str.to_re "+") (str.to_re "-")))`
	reInt    = "(re.++ " + reSign + " " + reDigits + ")"
	reUnit   = `(re.union (str.to_re "ns") (str.to_re "us") (str.to_re "\\u{b5}s") (str.to_re "\\u{3bc}s") (str.to_re "ms") (str.to_re "s") (str.to_re "m") (str.to_re "h"))`
	// number: digits [ . digits* ] | . digits+
	reNum = "(re.union (re.++ " + reDigits + ` (re.opt (re.++ (str.to_re ".") (re.* ` + reDigit + `)))) (re.++ (str.to_re ".") ` + reDigits + "))"
	reDur = `(re.union (re.++ ` + reSign + ` (str.to_re "0")) (re.++ ` + reSign + " (re.+ (re.++ " + reNum + " " + reUnit + "))))"
	// all-zero duration: every digit is 0
	reZeroNum = `(re.union (re.++ (re.+ (str.to_re "0")) (re.opt (re.++ (str.to_re ".") (re.* (str.to_re "0"))))) (re.++ (str.to_re ".") (re.+ (str.to_re "0"))))`
	reZeroDur = `(re.union (re.++ ` + reSign + ` (str.to_re "0")) (re.++ ` + reSign + " (re.+ (re.++ " + reZeroNum + " " + reUnit + "))))"
	reFloat   = "(re.++ " + reSign + " " + reNum + ` (re.opt (re.++ (re.union (str.to_re "e") (str.to_re "E")) ` + reSign + " " + reDigits + ")))"
	reSpace   = `(re.union (str.to_re " ") (str.to_re "\u{9}") (str.to_re "\u{a}") (str.to_re "\u{d}"))`
)

func inRe(s *Term, re string) *Term {
	return mk("raw", BoolSort, 0, 0, "(str.in_re "+s.ref()+" "+re+")", s)
}

func initStringParserStubs() {
	// zz.StringExcluding(name, excluded, idx...): an arbitrary string that contains none of the excluded characters
	stubTable[zzp+"StringExcluding"] = func(e *Exec, st *State, fn *Func, args []Value, site string) []Outcome {
		ex := args[1].(*Term)
		if !ex.IsConst() || ex.S == "" {
			fail("StringExcluding: excluded characters must be a non-empty constant")
		}
		v := e.nondet(nondetName(e, st, []Value{args[0], args[2]}), StringSort, "string")
		var alts []string
		for _, c := range ex.S {
			alts = append(alts, "(str.to_re "+smtString(string(c))+")")
		}
		u := alts[0]
		if len(alts) > 1 {
			u = "(re.union " + strings.Join(alts, " ") + ")"
		}
		st.Assume(inRe(v, "(re.* (re.inter re.allchar (re.comp "+u+")))"))
		strExcl[v.ID] = ex.S
		return ret(st, v)
	}

	stubTable["strconv.Atoi"] = func(e *Exec, st *State, fn *Func, args []Value, site string) []Outcome {
		s := args[0].(*Term)
		if s.IsConst() {
			v, err := strconv.Atoi(s.S)
			if err != nil {
				return ret(st, BVConst(0, 64), e.stubError(st, StrConst("strconv.Atoi: parsing "+strconv.Quote(s.S)+": invalid syntax"), nil))
			}
			return ret(st, BVConst(uint64(int64(v)), 64), Iface{})
		}
		okc := inRe(s, reInt)
		// value (strings are short: no overflow): sign handling on top of str.to_int
		neg := App("str.prefixof", BoolSort, StrConst("-"), s)
		pos := App("str.prefixof", BoolSort, StrConst("+"), s)
		body := Ite(Or(neg, pos), App("str.substr", StringSort, s, IntConst(1), App("-", IntSort, App("str.len", IntSort, s), IntConst(1))), s)
		mag := App("str.to_int", IntSort, body)
		vi := Ite(neg, App("-", IntSort, mag), mag)
		var val *Term
		if mathInts {
			val = vi
		} else {
			// two's complement of a possibly negative mathematical integer
			val = Ite(neg, BVNeg(mk("int2bv", BV(64), 0, 0, "", mag)), mk("int2bv", BV(64), 0, 0, "", mag))
		}
		_ = vi
		s2 := st.Clone()
		var outs []Outcome
		if e.feasible(st, okc) {
			st.Assume(okc)
			outs = append(outs, ret(st, val, Iface{})...)
		}
		if e.feasible(s2, Not(okc)) {
			s2.Assume(Not(okc))
			outs = append(outs, ret(s2, BVConst(0, 64), e.stubError(s2, e.fresh("atoierr", StringSort), nil))...)
		}
		return outs
	}
	stubTable["time.ParseDuration"] = func(e *Exec, st *State, fn *Func, args []Value, site string) []Outcome {
		s := args[0].(*Term)
		if s.IsConst() {
			d, err := time.ParseDuration(s.S)
			if err != nil {
				return ret(st, BVConst(0, 64), e.stubError(st, StrConst("time: invalid duration "+strconv.Quote(s.S)), nil))
			}
			return ret(st, BVConst(uint64(int64(d)), 64), Iface{})
		}
		okc := inRe(s, reDur)
		var val *Term
		if mathInts {
			val = UF("time_ParseDuration", IntSort, s)
		} else {
			val = UF("time_ParseDuration", BV(64), s)
		}
		zero := BVConst(0, 64)
		isZero := inRe(s, reZeroDur)
		neg := App("str.prefixof", BoolSort, StrConst("-"), s)
		s2 := st.Clone()
		var outs []Outcome
		if e.feasible(st, okc) {
			st.Assume(okc)
			// sign / zero-ness of the value follow the text (magnitudes are otherwise uninterpreted; short strings
			// cannot overflow)
			st.Assume(Eq(Eq(val, zero), isZero))
			st.Assume(Implies(Not(isZero), Eq(BVCmp("bvslt", val, zero), neg)))
			outs = append(outs, ret(st, val, Iface{})...)
		}
		if e.feasible(s2, Not(okc)) {
			s2.Assume(Not(okc))
			outs = append(outs, ret(s2, zero, e.stubError(s2, e.fresh("durerr", StringSort), nil))...)
		}
		return outs
	}
	stubTable["strconv.ParseFloat"] = func(e *Exec, st *State, fn *Func, args []Value, site string) []Outcome {
		s := args[0].(*Term)
		fs := FPSort
		if e.fpRelaxed {
			fs = RealSort
		}
		var zero Value = e.zero(fn.Fn.Signature.Results().At(0).Type())
		if s.IsConst() {
			f, err := strconv.ParseFloat(s.S, 64)
			if err != nil {
				return ret(st, zero, e.stubError(st, StrConst("strconv.ParseFloat: invalid syntax"), nil))
			}
			if e.fpRelaxed {
				return ret(st, realOfFloat(f), Iface{})
			}
			return ret(st, FPConst(f), Iface{})
		}
		okc := inRe(s, reFloat) // (inf/nan/hex/underscore forms are outside the model: treated as rejected)
		val := UF("strconv_ParseFloat", fs, s)
		s2 := st.Clone()
		var outs []Outcome
		if e.feasible(st, okc) {
			st.Assume(okc)
			outs = append(outs, ret(st, val, Iface{})...)
		}
		if e.feasible(s2, Not(okc)) {
			s2.Assume(Not(okc))
			outs = append(outs, ret(s2, zero, e.stubError(s2, e.fresh("floaterr", StringSort), nil))...)
		}
		return outs
	}
	stubTable["strings.TrimSpace"] = func(e *Exec, st *State, fn *Func, args []Value, site string) []Outcome {
		s := args[0].(*Term)
		if s.IsConst() {
			return ret(st, StrConst(strings.TrimSpace(s.S)))
		}
		if t, ok := e.trimStructural(st, s); ok {
			return ret(st, t)
		}
		return ret(st, e.trimBoth(st, s))
	}
	stubTable["strings.Split"] = func(e *Exec, st *State, fn *Func, args []Value, site string) []Outcome {
		s, sep := args[0].(*Term), args[1].(*Term)
		mkSlice := func(s0 *State, parts []Value) Value {
			id := e.newObj(s0, &Struct{parts})
			return Slice{Arr: id, Len: len(parts), Cap: len(parts)}
		}
		if s.IsConst() && sep.IsConst() {
			var parts []Value
			for _, p := range strings.Split(s.S, sep.S) {
				parts = append(parts, StrConst(p))
			}
			return ret(st, mkSlice(st, parts))
		}
		if !sep.IsConst() || len(sep.S) == 0 {
			fail("strings.Split with symbolic or empty separator")
		}
		if parts, ok := splitStructural(s, sep.S); ok {
			var vs []Value
			for _, p := range parts {
				vs = append(vs, p)
			}
			return ret(st, mkSlice(st, vs))
		}
		maxParts := 4
		if v, err := strconv.Atoi(e.cfg["splitmax"]); err == nil && v > 0 {
			maxParts = v
		}
		var outs []Outcome
		cur := st
		rest := s
		var parts []Value
		for i := 0; i < maxParts; i++ {
			has := strContains(rest, sep)
			// path: no further separator -> rest is the last part
			last := cur.Clone()
			if e.feasible(last, Not(has)) {
				last.Assume(Not(has))
				outs = append(outs, ret(last, mkSlice(last, append(append([]Value(nil), parts...), rest)))...)
			}
			if i == maxParts-1 || !e.feasible(cur, has) {
				if i == maxParts-1 && e.feasible(cur, has) {
					e.issues = append(e.issues, Issue{"bound", "strings.Split: inputs with more than " + strconv.Itoa(maxParts) + " parts are outside the bound (" + site + ")"})
				}
				break
			}
			cur.Assume(has)
			idx := strIndexOf(rest, sep)
			parts = append(parts, strSubstr(rest, IntConst(0), idx))
			off := intAdd(idx, IntConst(int64(len(sep.S))))
			rest = strSubstr(rest, off, intSub(strLenInt(rest), off))
		}
		e.forks += len(outs) - 1
		return outs
	}
	stubTable["regexp.MustCompile"] = func(e *Exec, st *State, fn *Func, args []Value, site string) []Outcome {
		p := args[0].(*Term)
		if !p.IsConst() {
			fail("regexp.MustCompile with symbolic pattern")
		}
		id := e.newObj(st, &Struct{[]Value{p}})
		return ret(st, Ptr{Obj: id})
	}
	stubTable["(*regexp.Regexp).MatchString"] = func(e *Exec, st *State, fn *Func, args []Value, site string) []Outcome {
		pat := e.objContent(st, args[0].(Ptr).Obj).(*Struct).F[0].(*Term).S
		s := args[1].(*Term)
		re, ok := regexToSMT(pat)
		if ok {
			if s.IsConst() {
				m, err := regexp.MatchString(pat, s.S)
				if err == nil {
					return ret(st, BoolConst(m))
				}
			}
			return ret(st, inRe(s, re))
		}
		fail("regexp pattern %q has no model", pat)
		return nil
	}
}

// regexToSMT translates a small regular-expression subset (anchored ^...$ patterns made of literals, character
// classes [a-z0-9_], and the postfix operators + * ?) to an SMT-LIB regular expression.
func regexToSMT(pat string) (string, bool) {
	if !strings.HasPrefix(pat, "^") || !strings.HasSuffix(pat, "$") {
		return "", false
	}
	body := pat[1 : len(pat)-1]
	var parts []string
	i := 0
	for i < len(body) {
		var atom string
		c := body[i]
		switch {
		case c == '[':
			j := strings.IndexByte(body[i:], ']')
			if j < 0 {
				return "", false
			}
			cls := body[i+1 : i+j]
			i += j + 1
			if strings.HasPrefix(cls, "^") {
				return "", false
			}
			var alts []string
			for k := 0; k < len(cls); k++ {
				if k+2 < len(cls) && cls[k+1] == '-' {
					alts = append(alts, reRange(string(cls[k]), string(cls[k+2])))
					k += 2
				} else {
					alts = append(alts, `(str.to_re "`+string(cls[k])+`")`)
				}
			}
			if len(alts) == 1 {
				atom = alts[0]
			} else {
				atom = "(re.union " + strings.Join(alts, " ") + ")"
			}
		case strings.ContainsRune(`()|.\{}`, rune(c)):
			return "", false
		case c == '+' || c == '*' || c == '?':
			return "", false
		default:
			atom = `(str.to_re "` + string(c) + `")`
			i++
		}
		if i < len(body) {
			switch body[i] {
			case '+':
				atom = "(re.+ " + atom + ")"
				i++
			case '*':
				atom = "(re.* " + atom + ")"
				i++
			case '?':
				atom = "(re.opt " + atom + ")"
				i++
			}
		}
		parts = append(parts, atom)
	}
	if len(parts) == 0 {
		return `(str.to_re "")`, true
	}
	if len(parts) == 1 {
		return parts[0], true
	}
	return "(re.++ " + strings.Join(parts, " ") + ")", true
}

// ---- structured strings -------------------------------------------------------------------------------------------
// A harness may build its input as a concatenation of constant separators and string variables that are known not
// to contain those separators (zz.StringExcluding). strings.Split and strings.TrimSpace are then computed on the
// STRUCTURE of the concatenation (no str.indexof / str.substr chains for the solver): the number of parts is static.
// The facts used are properties of the two functions themselves:
//   Split(a ++ sep ++ b, sep) = [a, b]                     when neither a nor b contains sep
//   TrimSpace(a ++ c ++ b)    = ltrim(a) ++ c ++ rtrim(b)  when c starts and ends with a non-space character
//   TrimSpace(ltrim(a)) = TrimSpace(rtrim(a)) = TrimSpace(a);  TrimSpace(TrimSpace(a)) = TrimSpace(a)
// TrimSpace is a pure function: one decomposition per argument term (constraints re-assumed on every path).

var (
	strExcl   = map[int]string{}   // term id -> characters the string is known not to contain
	trimOf    = map[int]*Term{}    // id of a one-sided trim remainder -> the term it was cut from
	trimmedID = map[int]bool{}     // results of TrimSpace (idempotence)
	trimCache = map[int][3]*Term{} // argument id -> pre, mid, post of its TrimSpace decomposition
	ltrimCache = map[int][2]*Term{}
	rtrimCache = map[int][2]*Term{}
)

const (
	reSpaces       = "(re.* " + `(re.union (str.to_re " ") (str.to_re "\u{9}") (str.to_re "\u{a}") (str.to_re "\u{d}"))` + ")"
)

func reNoLeadingSpace() string  { return "(re.union (str.to_re \"\") (re.comp (re.++ " + reSpace + " re.all)))" }
func reNoTrailingSpace() string { return "(re.union (str.to_re \"\") (re.comp (re.++ re.all " + reSpace + ")))" }

func strPieces(t *Term) []*Term {
	if t.Op == "str.++" {
		var out []*Term
		for _, a := range t.Args {
			out = append(out, strPieces(a)...)
		}
		return out
	}
	if t.Op == "strconst" && t.S == "" {
		return nil
	}
	return []*Term{t}
}

func strJoin(ps []*Term) *Term {
	// merge adjacent constants
	var out []*Term
	for _, p := range ps {
		if p.Op == "strconst" && p.S == "" {
			continue
		}
		if n := len(out); n > 0 && p.Op == "strconst" && out[n-1].Op == "strconst" {
			out[n-1] = StrConst(out[n-1].S + p.S)
			continue
		}
		out = append(out, p)
	}
	switch len(out) {
	case 0:
		return StrConst("")
	case 1:
		return out[0]
	}
	return App("str.++", StringSort, out...)
}

func exclCovers(t *Term, chars string) bool {
	ex, ok := strExcl[t.ID]
	if !ok {
		return false
	}
	for _, c := range chars {
		if !strings.ContainsRune(ex, c) {
			return false
		}
	}
	return true
}

func splitStructural(s *Term, sep string) ([]*Term, bool) {
	if len(sep) != 1 {
		return nil, false
	}
	ps := strPieces(s)
	anyTagged := false
	for _, p := range ps {
		if p.Op == "strconst" {
			continue
		}
		if !exclCovers(p, sep) {
			return nil, false
		}
		anyTagged = true
	}
	if !anyTagged {
		return nil, false
	}
	var parts []*Term
	var cur []*Term
	for _, p := range ps {
		if p.Op != "strconst" {
			cur = append(cur, p)
			continue
		}
		frags := strings.Split(p.S, sep)
		cur = append(cur, StrConst(frags[0]))
		for _, f := range frags[1:] {
			parts = append(parts, strJoin(cur))
			cur = []*Term{StrConst(f)}
		}
	}
	parts = append(parts, strJoin(cur))
	// a part made of several tagged pieces is itself free of the separator; single pieces keep their own tag
	for _, p := range parts {
		if p.Op == "str.++" {
			strExcl[p.ID] = sep
		}
	}
	return parts, true
}

func isSpaceByte(c byte) bool { return c == ' ' || c == '\t' || c == '\n' || c == '\r' }

func (e *Exec) ltrimOnly(st *State, x *Term) *Term {
	pm, ok := ltrimCache[x.ID]
	if !ok {
		pm = [2]*Term{e.fresh("lt_pre", StringSort), e.fresh("lt_mid", StringSort)}
		ltrimCache[x.ID] = pm
		if ex, ok := strExcl[x.ID]; ok {
			strExcl[pm[1].ID] = ex
		}
		trimOf[pm[1].ID] = x
	}
	st.Assume(Eq(x, App("str.++", StringSort, pm[0], pm[1])))
	st.Assume(inRe(pm[0], reSpaces))
	st.Assume(inRe(pm[1], reNoLeadingSpace()))
	trimLemmas(st, x)
	return pm[1]
}

func (e *Exec) rtrimOnly(st *State, x *Term) *Term {
	pm, ok := rtrimCache[x.ID]
	if !ok {
		pm = [2]*Term{e.fresh("rt_mid", StringSort), e.fresh("rt_post", StringSort)}
		rtrimCache[x.ID] = pm
		if ex, ok := strExcl[x.ID]; ok {
			strExcl[pm[0].ID] = ex
		}
		trimOf[pm[0].ID] = x
	}
	st.Assume(Eq(x, App("str.++", StringSort, pm[0], pm[1])))
	st.Assume(inRe(pm[1], reSpaces))
	st.Assume(inRe(pm[0], reNoTrailingSpace()))
	trimLemmas(st, x)
	return pm[0]
}

func (e *Exec) trimBoth(st *State, s *Term) *Term {
	if trimmedID[s.ID] {
		return s
	}
	if y, ok := trimOf[s.ID]; ok {
		return e.trimBoth(st, y)
	}
	d, ok := trimCache[s.ID]
	if !ok {
		d = [3]*Term{e.fresh("ts_pre", StringSort), e.fresh("ts_mid", StringSort), e.fresh("ts_post", StringSort)}
		trimCache[s.ID] = d
		if ex, ok := strExcl[s.ID]; ok {
			strExcl[d[1].ID] = ex
		}
		trimmedID[d[1].ID] = true
	}
	st.Assume(Eq(s, App("str.++", StringSort, d[0], d[1], d[2])))
	st.Assume(inRe(d[0], reSpaces))
	st.Assume(inRe(d[2], reSpaces))
	notSpaceEdge := "(re.union (str.to_re \"\") (re.comp (re.union (re.++ " + reSpace + " re.all) (re.++ re.all " + reSpace + "))))"
	st.Assume(inRe(d[1], notSpaceEdge))
	// canonical choice for an all-space argument (the decomposition is otherwise not unique): everything in pre
	st.Assume(Implies(Eq(d[1], StrConst("")), Eq(d[2], StrConst(""))))
	trimLemmas(st, s)
	return d[1]
}

// trimStructural: TrimSpace of a concatenation with a constant piece that starts and ends with a non-space
// character and at most one variable piece on either side of the outermost such constants.
func (e *Exec) trimStructural(st *State, s *Term) (*Term, bool) {
	ps := strPieces(s)
	if len(ps) < 2 {
		return nil, false
	}
	L, R := -1, -1
	for i, p := range ps {
		if p.Op == "strconst" && strings.TrimSpace(p.S) != "" {
			if L < 0 {
				L = i
			}
			R = i
		}
	}
	if L < 0 || L > 1 || R < len(ps)-2 {
		return nil, false
	}
	out := append([]*Term(nil), ps...)
	if L == 1 {
		if ps[0].Op == "strconst" || isSpaceByte(ps[1].S[0]) {
			return nil, false
		}
		out[0] = e.ltrimOnly(st, ps[0])
	} else {
		out[0] = StrConst(strings.TrimLeft(ps[0].S, " \t\n\r"))
	}
	n := len(ps)
	if R == n-2 {
		if ps[n-1].Op == "strconst" || isSpaceByte(ps[R].S[len(ps[R].S)-1]) {
			return nil, false
		}
		out[n-1] = e.rtrimOnly(st, ps[n-1])
	} else {
		c := out[n-1] // may already be left-trimmed when L == R == 0... (n >= 2 so L==R==n-1 means n-1 >= 1)
		out[n-1] = StrConst(strings.TrimRight(c.S, " \t\n\r"))
	}
	return strJoin(out), true
}


// trimLemmas: consequences of the uniqueness of the maximal leading / trailing white-space runs, stated between the
// decompositions of the SAME string that exist so far (they spare the solver an inductive argument about
// concatenation equalities):  x = lt_pre ++ lt_mid = rt_mid ++ rt_post = ts_pre ++ ts_mid ++ ts_post.
func trimLemmas(st *State, x *Term) {
	d, okD := trimCache[x.ID]
	l, okL := ltrimCache[x.ID]
	r, okR := rtrimCache[x.ID]
	if okD && okL {
		st.Assume(Eq(l[0], d[0]))
		st.Assume(Eq(l[1], App("str.++", StringSort, d[1], d[2])))
	}
	if okD && okR {
		nonEmpty := Not(Eq(d[1], StrConst("")))
		st.Assume(Implies(nonEmpty, And(Eq(r[1], d[2]), Eq(r[0], App("str.++", StringSort, d[0], d[1])))))
		st.Assume(Implies(Not(nonEmpty), Eq(r[0], StrConst(""))))
	}
}
