package main

import (
	"go/types"
	"strings"

	"golang.org/x/tools/go/ssa"
)

func (e *Exec) callBuiltin(st *State, name string, args []Value, byDefer bool, site string) []Outcome {
	switch name {
	case "len":
		switch a := args[0].(type) {
		case Slice:
			return ret(st, BVConst(uint64(a.Len), 64))
		case *Term:
			return ret(st, strLen(a))
		case MapRef:
			if a.Obj == 0 {
				return ret(st, BVConst(0, 64))
			}
			return ret(st, BVConst(uint64(len(e.objContent(st, a.Obj).(*MapData).Keys)), 64))
		case *Struct:
			return ret(st, BVConst(uint64(len(a.F)), 64))
		case Ptr:
			arr := e.load(st, a).(*Struct)
			return ret(st, BVConst(uint64(len(arr.F)), 64))
		case ChanRef:
			return ret(st, BVConst(0, 64))
		}
	case "cap":
		switch a := args[0].(type) {
		case Slice:
			return ret(st, BVConst(uint64(a.Cap), 64))
		}
	case "append":
		s := args[0].(Slice)
		var add []Value
		switch t := args[1].(type) {
		case Slice:
			if t.Arr != 0 {
				arr := e.objContent(st, t.Arr).(*Struct)
				add = append(add, arr.F[t.Off:t.Off+t.Len]...)
			}
		case *Term:
			if !t.IsConst() {
				fail("append of symbolic string")
			}
			for _, b := range []byte(t.S) {
				add = append(add, BVConst(uint64(b), 8))
			}
		}
		if len(add) == 0 {
			return ret(st, s)
		}
		need := s.Len + len(add)
		if s.Arr != 0 && need <= s.Cap {
			arr := e.objContent(st, s.Arr).(*Struct)
			f := append([]Value(nil), arr.F...)
			copy(f[s.Off+s.Len:], add)
			st.Heap[s.Arr] = &Struct{f}
			return ret(st, Slice{Arr: s.Arr, Off: s.Off, Len: need, Cap: s.Cap})
		}
		ncap := 2 * s.Cap
		if ncap < need {
			ncap = need
		}
		f := make([]Value, ncap)
		if s.Arr != 0 {
			arr := e.objContent(st, s.Arr).(*Struct)
			copy(f, arr.F[s.Off:s.Off+s.Len])
		}
		copy(f[s.Len:], add)
		// zero fill
		var z Value
		for i := need; i < ncap; i++ {
			if z == nil {
				z = zeroLike(add[0])
			}
			f[i] = z
		}
		id := e.newObj(st, &Struct{f})
		return ret(st, Slice{Arr: id, Off: 0, Len: need, Cap: ncap})
	case "copy":
		d := args[0].(Slice)
		var src []Value
		switch t := args[1].(type) {
		case Slice:
			if t.Arr != 0 {
				arr := e.objContent(st, t.Arr).(*Struct)
				src = append(src, arr.F[t.Off:t.Off+t.Len]...)
			}
		case *Term:
			if !t.IsConst() {
				fail("copy from symbolic string")
			}
			for _, b := range []byte(t.S) {
				src = append(src, BVConst(uint64(b), 8))
			}
		}
		n := len(src)
		if d.Len < n {
			n = d.Len
		}
		if n > 0 {
			arr := e.objContent(st, d.Arr).(*Struct)
			f := append([]Value(nil), arr.F...)
			copy(f[d.Off:d.Off+n], src[:n])
			st.Heap[d.Arr] = &Struct{f}
		}
		return ret(st, BVConst(uint64(n), 64))
	case "delete":
		m := args[0].(MapRef)
		if m.Obj == 0 {
			return ret(st)
		}
		md := e.objContent(st, m.Obj).(*MapData)
		nd := &MapData{}
		for i := range md.Keys {
			c := e.eqVal(md.Keys[i], args[1])
			if c.IsTrue() {
				continue
			}
			if !c.IsFalse() {
				fail("delete with symbolic key aliasing")
			}
			nd.Keys = append(nd.Keys, md.Keys[i])
			nd.Vals = append(nd.Vals, md.Vals[i])
		}
		st.Heap[m.Obj] = nd
		return ret(st)
	case "print", "println":
		return ret(st)
	case "panic":
		return e.panicOut(st, args[0], "explicit panic", site)
	case "recover":
		// valid when called directly by a deferred function while its caller frame is panicking
		fr := st.Top()
		if fr.ByDefer && len(st.Frames) >= 2 && st.Frames[len(st.Frames)-2].Pending != nil {
			caller := st.Frames[len(st.Frames)-2]
			v := caller.Pending.Val
			if iv, ok := v.(Iface); ok && iv.T == nil {
				v = e.panicNilError(st)
			}
			caller.Pending = nil
			caller.Recovered = true
			return ret(st, v)
		}
		return ret(st, Iface{})
	case "min", "max":
		acc := args[0].(*Term)
		for _, a := range args[1:] {
			b := a.(*Term)
			var lt *Term
			switch acc.Sort.K {
			case SBV:
				lt = BVCmp("bvslt", b, acc) // signedness unknown here; callers use ints
			case SFP:
				lt = FPCmp("fp.lt", b, acc)
			default:
				fail("min/max on sort %v", acc.Sort)
			}
			if name == "max" {
				acc = Ite(lt, acc, b)
			} else {
				acc = Ite(lt, b, acc)
			}
		}
		return ret(st, acc)
	case "close":
		if e.conc == nil {
			ch := args[0].(ChanRef)
			if ch.Obj == 0 {
				return e.panicOut(st, e.runtimeError("close of nil channel"), "close of nil channel", site)
			}
			if o, ok := e.objContent(st, ch.Obj).(*Opaque); ok && o.Desc == "closed chan" {
				return e.panicOut(st, e.runtimeError("close of closed channel"), "close of closed channel", site)
			}
			st.Heap[ch.Obj] = &Opaque{"closed chan"}
			return ret(st)
		}
		return e.conc.closeChan(e, st, args[0].(ChanRef), site)
	case "ssa:wrapnilchk":
		p, ok := args[0].(Ptr)
		if ok && p.IsNil() {
			return e.panicOut(st, e.runtimeError("value method called using nil pointer"), "nil receiver", site)
		}
		return ret(st, args[0])
	}
	fail("builtin %s unsupported (%T) at %s", name, args[0], site)
	return nil
}

func zeroLike(v Value) Value {
	switch x := v.(type) {
	case *Term:
		switch x.Sort.K {
		case SBool:
			return False
		case SBV:
			return BVConst(0, x.Sort.W)
		case SFP:
			return FPConst(0)
		case SReal:
			return RealConst("0.0")
		case SString:
			return StrConst("")
		case SInt:
			return IntConst(0)
		}
	case Ptr:
		return Ptr{}
	case Slice:
		return Slice{}
	case Iface:
		return Iface{}
	case *Func:
		return (*Func)(nil)
	case MapRef:
		return MapRef{}
	case ChanRef:
		return ChanRef{}
	case *Struct:
		f := make([]Value, len(x.F))
		for i := range f {
			f[i] = zeroLike(x.F[i])
		}
		return &Struct{f}
	}
	return nil
}

func (e *Exec) panicNilError(st *State) Value {
	rt := e.prog.ImportedPackage("runtime")
	if rt != nil {
		if t := rt.Type("PanicNilError"); t != nil {
			id := e.newObj(st, e.zero(t.Type()))
			return Iface{T: types.NewPointer(t.Type()), V: Ptr{Obj: id}}
		}
	}
	return e.runtimeError("panic called with nil argument")
}

// ---------- strings ----------

func strLen(a *Term) *Term {
	if a.IsConst() {
		return BVConst(uint64(len(a.S)), 64)
	}
	if mathInts {
		return App("str.len", IntSort, a)
	}
	return mk("int2bv", BV(64), 0, 0, "", App("str.len", IntSort, a))
}

func bvToInt(t *Term) *Term {
	if t.Sort.K == SInt {
		return t
	}
	if t.IsConst() {
		return IntConst(t.SVal())
	}
	if t.Op == "int2bv" {
		return t.Args[0]
	}
	return App("bv2nat", IntSort, t)
}

func strLenInt(a *Term) *Term {
	if a.IsConst() {
		return IntConst(int64(len(a.S)))
	}
	return App("str.len", IntSort, a)
}

func intLe(a, b *Term) *Term {
	if a.IsConst() && b.IsConst() {
		return BoolConst(int64(a.U) <= int64(b.U))
	}
	return App("<=", BoolSort, a, b)
}
func intLt(a, b *Term) *Term {
	if a.IsConst() && b.IsConst() {
		return BoolConst(int64(a.U) < int64(b.U))
	}
	return App("<", BoolSort, a, b)
}
func intSub(a, b *Term) *Term {
	if a.IsConst() && b.IsConst() {
		return IntConst(int64(a.U) - int64(b.U))
	}
	return App("-", IntSort, a, b)
}
func intAdd(a, b *Term) *Term {
	if a.IsConst() && b.IsConst() {
		return IntConst(int64(a.U) + int64(b.U))
	}
	return App("+", IntSort, a, b)
}

func (e *Exec) strIndex(st *State, fr *Frame, x ssa.Value, s, idx *Term, site string) []*State {
	if idx.Sort.W < 64 {
		idx = SignExt(idx, 64)
	}
	if s.IsConst() && idx.IsConst() {
		i := idx.SVal()
		if i < 0 || i >= int64(len(s.S)) {
			return []*State{e.rtPanic(st, "index out of range", site)}
		}
		fr.Env[x] = BVConst(uint64(s.S[i]), 8)
		return []*State{st}
	}
	ii := bvToInt(idx)
	bad := Or(BVCmp("bvslt", idx, BVConst(0, 64)), Not(intLt(ii, strLenInt(s))))
	ok, outs := e.guard(st, bad, "index out of range", site)
	if ok != nil {
		code := App("str.to_code", IntSort, App("str.at", StringSort, s, ii))
		ok.Top().Env[x] = mk("int2bv", BV(8), 0, 0, "", code)
		outs = append(outs, ok)
	}
	return outs
}

func (e *Exec) strSlice(st *State, fr *Frame, x *ssa.Slice, s *Term, site string) []*State {
	var lo, hi *Term
	if x.Low != nil {
		lo = e.eval(st, fr, x.Low).(*Term)
	} else {
		lo = BVConst(0, 64)
	}
	if x.High != nil {
		hi = e.eval(st, fr, x.High).(*Term)
	} else {
		hi = strLen(s)
	}
	if s.IsConst() && lo.IsConst() && hi.IsConst() {
		l, h := lo.SVal(), hi.SVal()
		if l < 0 || h < l || h > int64(len(s.S)) {
			return []*State{e.rtPanic(st, "slice bounds out of range", site)}
		}
		fr.Env[x] = StrConst(s.S[l:h])
		return []*State{st}
	}
	li, hi2 := bvToInt(lo), bvToInt(hi)
	var bad *Term
	if pureInt(lo) && pureInt(hi) {
		// bounds that come from string functions (int2bv of small non-negative or -1 integers, plus constants):
		// compare in the integer domain, which string solvers handle far better than int2bv round trips
		li, hi2 = intView(lo), intView(hi)
		bad = Or(intLt(li, IntConst(0)), intLt(hi2, li), Not(intLe(hi2, strLenInt(s))))
	} else {
		bad = Or(BVCmp("bvslt", lo, BVConst(0, 64)), BVCmp("bvslt", hi, lo), Not(intLe(hi2, strLenInt(s))))
	}
	ok, outs := e.guard(st, bad, "slice bounds out of range", site)
	if ok != nil {
		ok.Top().Env[x] = strSubstr(s, li, intSub(hi2, li))
		outs = append(outs, ok)
	}
	return outs
}

func strSubstr(s, off, n *Term) *Term {
	if s.IsConst() && off.IsConst() && n.IsConst() {
		o, l := int64(off.U), int64(n.U)
		if o >= 0 && l >= 0 && o+l <= int64(len(s.S)) {
			return StrConst(s.S[o : o+l])
		}
	}
	return App("str.substr", StringSort, s, off, n)
}

func strContains(s, sub *Term) *Term {
	if s.IsConst() && sub.IsConst() {
		return BoolConst(strings.Contains(s.S, sub.S))
	}
	return App("str.contains", BoolSort, s, sub)
}

// strIndexOf returns Int term (-1 when absent)
func strIndexOf(s, sub *Term) *Term {
	if s.IsConst() && sub.IsConst() {
		return IntConst(int64(strings.Index(s.S, sub.S)))
	}
	return App("str.indexof", IntSort, s, sub, IntConst(0))
}

func intToBV(i *Term, w int) *Term {
	if mathInts {
		return i
	}
	if i.IsConst() {
		return BVConst(i.U, w)
	}
	return mk("int2bv", BV(w), 0, 0, "", i)
}

// pureInt: the bit-vector term is an int2bv image of an integer term (possibly plus/minus constants)
func pureInt(t *Term) bool {
	switch {
	case t.IsConst():
		return true
	case t.Op == "int2bv":
		return true
	case t.Op == "bvadd" || t.Op == "bvsub":
		return pureInt(t.Args[0]) && pureInt(t.Args[1])
	}
	return false
}

// intView: the integer the term denotes, assuming no wrap-around (string lengths and indices are tiny)
func intView(t *Term) *Term {
	switch {
	case t.IsConst():
		return IntConst(t.SVal())
	case t.Op == "int2bv":
		return t.Args[0]
	case t.Op == "bvadd":
		return intAdd(intView(t.Args[0]), intView(t.Args[1]))
	case t.Op == "bvsub":
		return intSub(intView(t.Args[0]), intView(t.Args[1]))
	}
	return bvToInt(t)
}
