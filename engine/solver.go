package main

import (
	"bufio"
	"context"
	"fmt"
	"io"
	"math"
	"math/big"
	"os"
	"os/exec"
	"strconv"
	"strings"
	"time"
)

// ---------------- incremental solver process (z3 -in) ----------------

type IncSolver struct {
	kind    string
	cmd     *exec.Cmd
	in      io.WriteCloser
	out     *bufio.Reader
	defined map[int]bool
	decl    map[string]bool
	Queries int
	Time    time.Duration
	dead    bool
	Restarts int
	log     io.Writer
}

func solverArgv(kind string) []string {
	switch kind {
	case "z3":
		return []string{"z3", "-in"}
	case "z3new":
		return []string{"z3-new", "-in"}
	case "cvc5":
		return []string{"cvc5", "--incremental", "--strings-exp", "--produce-models", "--lang=smt2"}
	}
	panic("unknown solver " + kind)
}

func NewIncSolver(kind string) *IncSolver {
	s := &IncSolver{kind: kind}
	s.start()
	return s
}

// restart kills a wedged solver process and starts a fresh one (definitions are re-sent lazily).
func (s *IncSolver) restart() {
	if s.cmd != nil && s.cmd.Process != nil {
		s.cmd.Process.Kill()
		go s.cmd.Wait()
	}
	s.Restarts++
	s.start()
}

func (s *IncSolver) start() {
	kind := s.kind
	argv := solverArgv(kind)
	cmd := exec.Command(argv[0], argv[1:]...)
	in, _ := cmd.StdinPipe()
	out, _ := cmd.StdoutPipe()
	cmd.Stderr = cmd.Stdout
	if err := cmd.Start(); err != nil {
		panic(err)
	}
	s.cmd, s.in, s.out, s.defined, s.decl, s.dead = cmd, in, bufio.NewReaderSize(out, 1<<20), map[int]bool{}, map[string]bool{}, false
	if f := os.Getenv("VERIF_SMTLOG"); f != "" && s.log == nil {
		w, _ := os.Create(f + "." + kind + fmt.Sprint(os.Getpid()))
		s.log = w
	}
	s.send("(set-option :produce-models true)\n")
	if kind == "cvc5" {
		s.send("(set-logic ALL)\n")
	}
}

func (s *IncSolver) send(txt string) {
	if s.log != nil {
		io.WriteString(s.log, txt)
	}
	io.WriteString(s.in, txt)
}

func (s *IncSolver) Close() {
	if s == nil || s.dead {
		return
	}
	s.dead = true
	s.in.Close()
	s.cmd.Process.Kill()
	s.cmd.Wait()
}

// readUntilMarker reads lines until the echo marker appears.
func (s *IncSolver) roundTrip(txt string) (string, error) {
	marker := "<<verif-done>>"
	s.send(txt + "(echo \"" + marker + "\")\n")
	var sb strings.Builder
	for {
		line, err := s.out.ReadString('\n')
		if strings.Contains(line, marker) {
			break
		}
		sb.WriteString(line)
		if err != nil {
			s.dead = true
			return sb.String(), fmt.Errorf("solver %s died: %v", s.kind, err)
		}
	}
	return sb.String(), nil
}

func (s *IncSolver) ensureDefined(asserts []*Term) string {
	nodes := Collect(asserts)
	var sb strings.Builder
	for _, t := range nodes {
		switch {
		case t.Op == "var":
			if !s.decl["v"+t.S] {
				s.decl["v"+t.S] = true
				fmt.Fprintf(&sb, "(declare-fun %s () %s)\n", smtName(t.S), t.Sort.SMT())
			}
		case t.Op == "uf":
			if !s.decl["u"+t.S] {
				s.decl["u"+t.S] = true
				var as []string
				for _, a := range t.Args {
					as = append(as, a.Sort.SMT())
				}
				fmt.Fprintf(&sb, "(declare-fun %s (%s) %s)\n", smtName(t.S), strings.Join(as, " "), t.Sort.SMT())
			}
			if len(t.Args) > 0 && !s.defined[t.ID] {
				s.defined[t.ID] = true
				fmt.Fprintf(&sb, "(define-fun t%d () %s %s)\n", t.ID, t.Sort.SMT(), t.body())
			}
		case t.IsConst():
		default:
			if !s.defined[t.ID] {
				s.defined[t.ID] = true
				fmt.Fprintf(&sb, "(define-fun t%d () %s %s)\n", t.ID, t.Sort.SMT(), t.body())
			}
		}
	}
	return sb.String()
}

type Model map[string]string // var name -> SMT value text

// Check returns "sat" / "unsat" / "unknown" (also on any error line).
func (s *IncSolver) Check(asserts []*Term, timeoutMs int, wantModel bool) (string, Model) {
	if s.dead {
		return "unknown", nil
	}
	t0 := time.Now()
	defer func() { s.Time += time.Since(t0); s.Queries++ }()
	var sb strings.Builder
	sb.WriteString(s.ensureDefined(asserts))
	if s.kind != "cvc5" {
		fmt.Fprintf(&sb, "(set-option :timeout %d)\n", timeoutMs)
	}
	sb.WriteString("(push 1)\n")
	for _, a := range asserts {
		sb.WriteString("(assert " + a.ref() + ")\n")
	}
	sb.WriteString("(check-sat)\n")
	type rt struct {
		out string
		err error
	}
	ch := make(chan rt, 1)
	txt := sb.String()
	go func() {
		o, e := s.roundTrip(txt)
		ch <- rt{o, e}
	}()
	var out string
	var err error
	select {
	case r := <-ch:
		out, err = r.out, r.err
	case <-time.After(time.Duration(timeoutMs)*time.Millisecond + 3*time.Second):
		// the solver ignored its timeout: kill it and start over
		s.restart()
		return "unknown", nil
	}
	res := "unknown"
	if err == nil && !strings.Contains(out, "(error") {
		f := strings.Fields(out)
		if len(f) > 0 {
			switch f[len(f)-1] {
			case "sat":
				res = "sat"
			case "unsat":
				res = "unsat"
			}
		}
	} else if err == nil && os.Getenv("VERIF_DEBUG") != "" {
		fmt.Fprintln(os.Stderr, "solver error:", out)
	}
	var model Model
	if res == "sat" && wantModel {
		vs := varsOf(Collect(asserts))
		if len(vs) > 0 {
			var q strings.Builder
			q.WriteString("(get-value (")
			for _, v := range vs {
				q.WriteString(smtName(v.S) + " ")
			}
			q.WriteString("))\n")
			mo, err2 := s.roundTrip(q.String())
			if err2 == nil {
				model = parseGetValue(mo)
			}
		} else {
			model = Model{}
		}
	}
	if !s.dead {
		s.roundTrip("(pop 1)\n")
	}
	return res, model
}

// ---------------- one-shot solver runs on script files ----------------

type FileResult struct {
	Res    string
	Model  Model
	Dur    time.Duration
	Solver string
	Out    string
}

func RunScript(kind, script string, vars []*Term, timeout time.Duration, path string) FileResult {
	full := script
	if len(vars) > 0 {
		var q strings.Builder
		q.WriteString("(get-value (")
		for _, v := range vars {
			q.WriteString(smtName(v.S) + " ")
		}
		q.WriteString("))\n")
		full += q.String()
	}
	if path != "" {
		os.WriteFile(path, []byte(full), 0o644)
	}
	var argv []string
	switch kind {
	case "z3":
		argv = []string{"z3", "-in", fmt.Sprintf("-T:%d", int(timeout.Seconds())+1)}
	case "z3new":
		argv = []string{"z3-new", "-in", fmt.Sprintf("-T:%d", int(timeout.Seconds())+1)}
	case "cvc5":
		argv = []string{"cvc5", "--strings-exp", "--produce-models", "--lang=smt2", fmt.Sprintf("--tlimit=%d", timeout.Milliseconds())}
	case "cvc5int":
		argv = []string{"cvc5", "--strings-exp", "--produce-models", "--lang=smt2", "--solve-bv-as-int=sum", fmt.Sprintf("--tlimit=%d", timeout.Milliseconds())}
	}
	ctx, cancel := context.WithTimeout(context.Background(), timeout+5*time.Second)
	defer cancel()
	cmd := exec.CommandContext(ctx, argv[0], argv[1:]...)
	in := full
	if strings.HasPrefix(kind, "cvc5") && !strings.Contains(in, "(set-logic") {
		in = "(set-logic ALL)\n" + in
	}
	cmd.Stdin = strings.NewReader(in)
	t0 := time.Now()
	outb, _ := cmd.CombinedOutput()
	out := string(outb)
	r := FileResult{Res: "unknown", Dur: time.Since(t0), Solver: kind, Out: out}
	// find the verdict line; any (error before it makes the run inconclusive
	var pre, post []string
	verdict := ""
	for _, l := range strings.Split(out, "\n") {
		t := strings.TrimSpace(l)
		if verdict == "" {
			if t == "sat" || t == "unsat" || t == "unknown" {
				verdict = t
				continue
			}
			pre = append(pre, l)
		} else {
			post = append(post, l)
		}
	}
	if strings.Contains(strings.Join(pre, "\n"), "(error") {
		return r
	}
	switch verdict {
	case "unsat":
		// errors after an unsat verdict can only come from the trailing (get-value): irrelevant
		r.Res = "unsat"
	case "sat":
		r.Res = "sat"
		rest := strings.Join(post, "\n")
		if !strings.Contains(rest, "(error") {
			r.Model = parseGetValue(rest)
		}
	}
	return r
}

// ---------------- s-expression parsing of (get-value ...) output ----------------

type sx struct {
	atom string
	list []*sx
	isL  bool
}

func parseSx(s string, i int) (*sx, int) {
	for i < len(s) && (s[i] == ' ' || s[i] == '\n' || s[i] == '\t' || s[i] == '\r') {
		i++
	}
	if i >= len(s) {
		return nil, i
	}
	if s[i] == '(' {
		i++
		n := &sx{isL: true}
		for {
			for i < len(s) && (s[i] == ' ' || s[i] == '\n' || s[i] == '\t' || s[i] == '\r') {
				i++
			}
			if i >= len(s) {
				return n, i
			}
			if s[i] == ')' {
				return n, i + 1
			}
			var c *sx
			c, i = parseSx(s, i)
			if c == nil {
				return n, i
			}
			n.list = append(n.list, c)
		}
	}
	if s[i] == '"' {
		j := i + 1
		for j < len(s) {
			if s[j] == '"' {
				if j+1 < len(s) && s[j+1] == '"' {
					j += 2
					continue
				}
				break
			}
			j++
		}
		return &sx{atom: s[i : j+1]}, j + 1
	}
	if s[i] == '|' {
		j := strings.IndexByte(s[i+1:], '|')
		return &sx{atom: s[i : i+j+2]}, i + j + 2
	}
	j := i
	for j < len(s) && !strings.ContainsRune(" \n\t\r()", rune(s[j])) {
		j++
	}
	return &sx{atom: s[i:j]}, j
}

func (n *sx) String() string {
	if !n.isL {
		return n.atom
	}
	var parts []string
	for _, c := range n.list {
		parts = append(parts, c.String())
	}
	return "(" + strings.Join(parts, " ") + ")"
}

func parseGetValue(out string) Model {
	m := Model{}
	i := 0
	for {
		n, j := parseSx(out, i)
		if n == nil {
			break
		}
		i = j
		if !n.isL {
			continue
		}
		for _, pair := range n.list {
			if pair.isL && len(pair.list) == 2 && !pair.list[0].isL {
				name := strings.Trim(pair.list[0].atom, "|")
				m[name] = pair.list[1].String()
			}
		}
	}
	return m
}

// Decoders for model values ------------------------------------------------

func modelBV(v string) (uint64, bool) {
	v = strings.TrimSpace(v)
	if strings.HasPrefix(v, "#x") {
		u, err := strconv.ParseUint(v[2:], 16, 64)
		return u, err == nil
	}
	if strings.HasPrefix(v, "#b") {
		u, err := strconv.ParseUint(v[2:], 2, 64)
		return u, err == nil
	}
	if strings.HasPrefix(v, "(_ bv") {
		f := strings.Fields(v[5:])
		u, err := strconv.ParseUint(f[0], 10, 64)
		return u, err == nil
	}
	return 0, false
}

func modelFP(v string) (float64, bool) {
	n, _ := parseSx(v, 0)
	if n == nil {
		return 0, false
	}
	if n.isL && len(n.list) == 4 && n.list[0].atom == "fp" {
		s, ok1 := modelBV(n.list[1].atom)
		e, ok2 := modelBV(n.list[2].atom)
		m, ok3 := modelBV(n.list[3].atom)
		if ok1 && ok2 && ok3 {
			return math.Float64frombits(s<<63 | e<<52 | m), true
		}
	}
	if n.isL && len(n.list) >= 2 && n.list[0].atom == "_" {
		switch n.list[1].atom {
		case "+zero":
			return 0, true
		case "-zero":
			return math.Copysign(0, -1), true
		case "+oo":
			return math.Inf(1), true
		case "-oo":
			return math.Inf(-1), true
		case "NaN":
			return math.NaN(), true
		}
	}
	return 0, false
}

func modelInt(v string) (int64, bool) {
	n, _ := parseSx(v, 0)
	if n == nil {
		return 0, false
	}
	if !n.isL {
		i, err := strconv.ParseInt(n.atom, 10, 64)
		return i, err == nil
	}
	if len(n.list) == 2 && n.list[0].atom == "-" {
		i, err := strconv.ParseInt(n.list[1].atom, 10, 64)
		return -i, err == nil
	}
	return 0, false
}

func modelString(v string) (string, bool) {
	v = strings.TrimSpace(v)
	if len(v) < 2 || v[0] != '"' {
		return "", false
	}
	s := v[1 : len(v)-1]
	s = strings.ReplaceAll(s, `""`, `"`)
	// \u{..} escapes
	var sb strings.Builder
	for i := 0; i < len(s); i++ {
		if s[i] == '\\' && i+2 < len(s) && s[i+1] == 'u' && s[i+2] == '{' {
			j := strings.IndexByte(s[i:], '}')
			if j > 0 {
				c, err := strconv.ParseUint(s[i+3:i+j], 16, 32)
				if err == nil {
					sb.WriteRune(rune(c))
					i += j
					continue
				}
			}
		}
		if s[i] == '\\' && i+1 < len(s) && s[i+1] == 'x' && i+3 < len(s) {
			c, err := strconv.ParseUint(s[i+2:i+4], 16, 8)
			if err == nil {
				sb.WriteByte(byte(c))
				i += 3
				continue
			}
		}
		sb.WriteByte(s[i])
	}
	return sb.String(), true
}

// parseGetValueRaw: like parseGetValue but keeps arbitrary term names (tN) as keys
func parseGetValueRaw(out string) map[string]string {
	m := map[string]string{}
	i := 0
	for {
		n, j := parseSx(out, i)
		if n == nil {
			break
		}
		i = j
		if !n.isL {
			continue
		}
		for _, pair := range n.list {
			if pair.isL && len(pair.list) == 2 {
				m[pair.list[0].String()] = pair.list[1].String()
			}
		}
	}
	return m
}

// modelReal parses an SMT real value: 12.5, (- 3.0), (/ 1.0 3.0), (- (/ 1.0 3.0))
func modelReal(v string) (float64, bool) {
	n, _ := parseSx(v, 0)
	if n == nil {
		return 0, false
	}
	var ev func(n *sx) (*big.Rat, bool)
	ev = func(n *sx) (*big.Rat, bool) {
		if !n.isL {
			r, ok := new(big.Rat).SetString(n.atom)
			return r, ok
		}
		if len(n.list) == 2 && n.list[0].atom == "-" {
			r, ok := ev(n.list[1])
			if !ok {
				return nil, false
			}
			return r.Neg(r), true
		}
		if len(n.list) == 3 && n.list[0].atom == "/" {
			a, ok1 := ev(n.list[1])
			b, ok2 := ev(n.list[2])
			if !ok1 || !ok2 || b.Sign() == 0 {
				return nil, false
			}
			return a.Quo(a, b), true
		}
		return nil, false
	}
	r, ok := ev(n)
	if !ok {
		return 0, false
	}
	f, _ := r.Float64()
	return f, true
}
