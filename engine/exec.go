package main

import (
	"fmt"
	"go/token"
	"go/types"
	"os"
	"runtime"
	"sort"
	"strings"
	"time"

	"golang.org/x/tools/go/ssa"
)

const (
	oReturn = iota
	oStop
	oPanic
)

type Outcome struct {
	st   *State
	kind int
	vals []Value
	at   *ssa.BasicBlock
}

type Obligation struct {
	ID      string
	Kind    string // assert | nopanic | cover | unwind | witness
	PC      *Term  // path condition under which the obligation is reached
	Cond    *Term  // must hold (assert) ; for cover: reachability of PC
	Site    string
	Detail  string
	Harness string
	Raw      []*Term // complete query (deadlock obligations): satisfiable = violated
	NoReplay bool // engine-generated obligation without a native counterpart
	// results
	Res      string
	Model    Model
	SolverS  float64
	Solver   string
	Known    string
	Replayed string
}

type Issue struct {
	Kind string
	Msg  string
}

type Exec struct {
	prog      *ssa.Program
	solver    *IncSolver
	fpRelaxed bool
	fpUF      bool
	unroll    int
	nextObj   int
	globals   map[*ssa.Global]int
	globalTy  map[int]types.Type
	globalNm  map[int]string
	obligs    []*Obligation
	issues    []Issue
	pdomCache map[*ssa.Function][]*ssa.BasicBlock
	funcsSeen map[string]bool
	stubsUsed map[string]bool
	nondets   map[string]*Term
	nondetTy  map[string]string
	harness   string
	noMerge   bool
	feasQ     int
	paths     int
	merges    int
	forks     int
	initState *State
	conc      *ConcCtx
	maxSteps  int
	cfg       map[string]string
	objSite   map[int]string  // allocation site of objects created by Alloc (concurrent mode)
	track     map[string]bool // plain locations (allocation site # path) modelled as shared cells
	stableIDs bool
	curSite   string
	freshN    int
	lenient   bool
	totalSteps int
	headCache map[[2]interface{}]*ssa.BasicBlock
	feasCache map[string]bool
	feasHits  int
	lightCache map[[2]interface{}]bool
	slowN     int
	replace   map[string]*ssa.Function
	ufApps    map[string][][2]*Term
}

func NewExec(prog *ssa.Program) *Exec {
	return &Exec{objSite: map[int]string{}, prog: prog, unroll: 8, nextObj: 1, globals: map[*ssa.Global]int{}, globalTy: map[int]types.Type{}, globalNm: map[int]string{},
		pdomCache: map[*ssa.Function][]*ssa.BasicBlock{}, funcsSeen: map[string]bool{}, stubsUsed: map[string]bool{},
		nondets: map[string]*Term{}, headCache: map[[2]interface{}]*ssa.BasicBlock{}, feasCache: map[string]bool{}, lightCache: map[[2]interface{}]bool{}, nondetTy: map[string]string{}, maxSteps: 3_000_000, cfg: map[string]string{}}
}

func (e *Exec) fresh(prefix string, s Sort) *Term {
	e.freshN++
	return Var(fmt.Sprintf("%s!%d", prefix, e.freshN), s)
}

// stable object ids: in the tracking passes of a concurrent harness an object is named by (thread, instruction site,
// occurrence on the path), so that reference values remembered from one exploration pass mean the same objects in
// the next; mutually exclusive paths of a thread then share ids, which is harmless (each state has its own heap and
// every event carries its path guard).
var (
	stableTable = map[string]int{}
	stableNext  = 1 << 20
)

func (e *Exec) newObj(st *State, v Value) int {
	if e.stableIDs && st.Thread != nil {
		key := st.Thread.rec.stable + "|" + e.curSite
		key = fmt.Sprintf("%s|%d", key, st.Thread.bump("obj@"+e.curSite))
		id, ok := stableTable[key]
		if !ok {
			id = stableNext
			stableNext++
			stableTable[key] = id
		}
		st.Heap[id] = v
		return id
	}
	id := e.nextObj
	e.nextObj++
	st.Heap[id] = v
	return id
}

func (e *Exec) globalObj(g *ssa.Global) int {
	if id, ok := e.globals[g]; ok {
		return id
	}
	id := e.nextObj
	e.nextObj++
	e.globals[g] = id
	e.globalTy[id] = g.Type().(*types.Pointer).Elem()
	e.globalNm[id] = g.String()
	return id
}

func (e *Exec) objContent(st *State, obj int) Value {
	v, ok := st.Heap[obj]
	if !ok {
		if t, ok := e.globalTy[obj]; ok {
			v = e.zero(t)
			st.Heap[obj] = v
			return v
		}
		fail("dangling object %d", obj)
	}
	return v
}

func (e *Exec) load(st *State, p Ptr) Value {
	return getPath(e.objContent(st, p.Obj), pathSplit(p.Path))
}

func (e *Exec) store(st *State, p Ptr, v Value) {
	st.Heap[p.Obj] = setPath(e.objContent(st, p.Obj), pathSplit(p.Path), v)
}

// ---------- feasibility ----------

func (e *Exec) feasible(st *State, c *Term) bool {
	if c.IsTrue() {
		return true
	}
	if c.IsFalse() {
		return false
	}
	e.feasQ++
	if e.feasQ%200 == 0 && os.Getenv("VERIF_PROGRESS") != "" {
		fmt.Fprintf(os.Stderr, "  feasibility queries: %d, solver time %.1fs, forks %d merges %d terms %d\n", e.feasQ, e.solver.Time.Seconds(), e.forks, e.merges, len(termList))
	}
	as := sliceRelevant(st.PC, c)
	if e.conc != nil {
		as = append(as, e.conc.sideConstraints()...)
	}
	ids := make([]int, len(as))
	for i, a := range as {
		ids[i] = a.ID
	}
	sort.Ints(ids)
	key := fmt.Sprint(ids)
	if r, ok := e.feasCache[key]; ok {
		e.feasHits++
		return r
	}
	t0 := time.Now()
	res, _ := e.solver.Check(as, 5000, false)
	if res != "unknown" {
		e.feasCache[key] = res != "unsat"
	}
	if d := time.Since(t0); d > 100*time.Millisecond && os.Getenv("VERIF_PROGRESS") != "" {
		e.slowN++
		if e.slowN <= 5 {
			os.WriteFile(fmt.Sprintf("/tmp/probe/slow_%d.smt2", e.slowN), []byte(fmt.Sprintf("; %v %s\n", d, res)+Script(as, false, "")), 0o644)
		}
	}
	return res != "unsat"
}

// ---------- post-dominators ----------

func (e *Exec) ipdoms(fn *ssa.Function) []*ssa.BasicBlock {
	if r, ok := e.pdomCache[fn]; ok {
		return r
	}
	n := len(fn.Blocks)
	words := (n + 63) / 64
	full := make([]uint64, words)
	for i := 0; i < n; i++ {
		full[i/64] |= 1 << uint(i%64)
	}
	pd := make([][]uint64, n)
	for i, b := range fn.Blocks {
		pd[i] = make([]uint64, words)
		if len(b.Succs) == 0 {
			pd[i][i/64] |= 1 << uint(i%64)
		} else {
			copy(pd[i], full)
		}
	}
	changed := true
	for changed {
		changed = false
		for i := n - 1; i >= 0; i-- {
			b := fn.Blocks[i]
			if len(b.Succs) == 0 {
				continue
			}
			nw := make([]uint64, words)
			copy(nw, full)
			for _, s := range b.Succs {
				for w := range nw {
					nw[w] &= pd[s.Index][w]
				}
			}
			nw[i/64] |= 1 << uint(i%64)
			for w := range nw {
				if nw[w] != pd[i][w] {
					changed = true
				}
			}
			pd[i] = nw
		}
	}
	count := func(s []uint64) int {
		c := 0
		for _, w := range s {
			for ; w != 0; w &= w - 1 {
				c++
			}
		}
		return c
	}
	// blocks that cannot reach an exit keep the full set; detect: a block whose set is full but is not
	// genuinely post-dominated by everything. We detect by reachability to an exit.
	canExit := make([]bool, n)
	for ch := true; ch; {
		ch = false
		for i, b := range fn.Blocks {
			if canExit[i] {
				continue
			}
			if len(b.Succs) == 0 {
				canExit[i] = true
				ch = true
				continue
			}
			for _, s := range b.Succs {
				if canExit[s.Index] {
					canExit[i] = true
					ch = true
					break
				}
			}
		}
	}
	res := make([]*ssa.BasicBlock, n)
	for i := 0; i < n; i++ {
		if !canExit[i] {
			continue
		}
		ci := count(pd[i]) - 1
		if ci <= 0 {
			continue
		}
		for j := 0; j < n; j++ {
			if j == i || pd[i][j/64]&(1<<uint(j%64)) == 0 || !canExit[j] {
				continue
			}
			if count(pd[j]) == ci {
				res[i] = fn.Blocks[j]
				break
			}
		}
	}
	e.pdomCache[fn] = res
	return res
}

// ---------- running ----------

func firstNonPhi(b *ssa.BasicBlock) int {
	i := 0
	for i < len(b.Instrs) {
		if _, ok := b.Instrs[i].(*ssa.Phi); !ok {
			break
		}
		i++
	}
	return i
}

// enter evaluates the phis of succ for the edge from->succ.
func (e *Exec) enter(st *State, from, succ *ssa.BasicBlock) {
	fr := st.Top()
	pi := -1
	for i, p := range succ.Preds {
		if p == from {
			pi = i
			break
		}
	}
	var vals []Value
	var phis []*ssa.Phi
	for _, ins := range succ.Instrs {
		phi, ok := ins.(*ssa.Phi)
		if !ok {
			break
		}
		phis = append(phis, phi)
		vals = append(vals, e.eval(st, fr, phi.Edges[pi]))
	}
	for i, phi := range phis {
		fr.Env[phi] = vals[i]
	}
}

func inStops(b *ssa.BasicBlock, stops []*ssa.BasicBlock) bool {
	for _, s := range stops {
		if s == b {
			return true
		}
	}
	return false
}

func (e *Exec) run(st *State, blk *ssa.BasicBlock, idx int, stops []*ssa.BasicBlock) []Outcome {
	for {
		fr := st.Top()
		for idx < len(blk.Instrs)-1 {
			ins := blk.Instrs[idx]
			st.Steps++
			e.totalSteps++
			if st.Steps > e.maxSteps {
				fail("step limit exceeded in %s", fr.Fn)
			}
			sts := e.step(st, fr, ins)
			if len(sts) == 1 && sts[0].Panicking == nil {
				st = sts[0]
				fr = st.Top()
				idx++
				continue
			}
			var res []Outcome
			for _, s := range sts {
				if s.Panicking != nil {
					res = append(res, e.unwind(s)...)
				} else {
					res = append(res, e.run(s, blk, idx+1, stops)...)
				}
			}
			return res
		}
		// terminator
		switch t := blk.Instrs[len(blk.Instrs)-1].(type) {
		case *ssa.Jump:
			succ := blk.Succs[0]
			e.enter(st, blk, succ)
			if inStops(succ, stops) {
				return []Outcome{{st: st, kind: oStop, at: succ}}
			}
			blk, idx = succ, firstNonPhi(succ)
		case *ssa.If:
			cond := e.eval(st, fr, t.Cond).(*Term)
			if cond.IsConst() {
				succ := blk.Succs[1]
				if cond.IsTrue() {
					succ = blk.Succs[0]
				}
				e.enter(st, blk, succ)
				if inStops(succ, stops) {
					return []Outcome{{st: st, kind: oStop, at: succ}}
				}
				blk, idx = succ, firstNonPhi(succ)
				continue
			}
			tF, fF := true, true
			if !e.lightRegion(fr.Fn, blk) {
				tF = e.feasible(st, cond)
				fF = e.feasible(st, Not(cond))
			}
			if !tF && !fF {
				return nil
			}
			if tF != fF {
				succ := blk.Succs[1]
				if tF {
					succ = blk.Succs[0]
					st.Assume(cond)
				} else {
					st.Assume(Not(cond))
				}
				e.enter(st, blk, succ)
				if inStops(succ, stops) {
					return []Outcome{{st: st, kind: oStop, at: succ}}
				}
				blk, idx = succ, firstNonPhi(succ)
				continue
			}
			// genuine symbolic branch
			if fr.Visits == nil {
				fr.Visits = map[int]int{}
			}
			if e.loopControl(fr.Fn, blk) {
				fr.Visits[blk.Index]++
			}
			if fr.Visits[blk.Index] > e.unroll {
				kind := "unwind"
				if e.conc != nil || e.cfg["unwind"] == "assume" {
					kind = "bound" // stated bound: executions needing more rounds of this loop are outside the claim
				}
				if e.conc != nil {
					e.conc.noteTruncation(st)
				}
				e.issues = append(e.issues, Issue{kind, fmt.Sprintf("loop bound %d exceeded at %s block %d (%s)", e.unroll, fr.Fn, blk.Index, e.prog.Fset.Position(t.Pos()))})
				return nil
			}
			e.forks++
			base := len(st.PC)
			sT := st.Clone()
			sT.Assume(cond)
			sF := st
			sF.Assume(Not(cond))
			J := e.ipdoms(fr.Fn)[blk.Index]
			if e.noMerge {
				J = nil
			}
			var inner []*ssa.BasicBlock
			if J != nil {
				inner = append(append([]*ssa.BasicBlock(nil), stops...), J)
			} else {
				inner = stops
			}
			// additionally join at the head of the innermost enclosing loop: paths that go round the loop are
			// merged there instead of being continued separately (keeps loops with early exits linear)
			H := e.loopHead(fr.Fn, blk)
			if e.noMerge || H == J || inStops(H, inner) {
				H = nil
			}
			if H != nil {
				inner = append(append([]*ssa.BasicBlock(nil), inner...), H)
			}
			var outs []Outcome
			for k, s := range []*State{sT, sF} {
				succ := blk.Succs[k]
				e.enter(s, blk, succ)
				if inStops(succ, inner) {
					outs = append(outs, Outcome{st: s, kind: oStop, at: succ})
				} else {
					outs = append(outs, e.run(s, succ, firstNonPhi(succ), inner)...)
				}
			}
			if H != nil {
				var atH, rest []Outcome
				for _, o := range outs {
					if o.kind == oStop && o.at == H {
						atH = append(atH, o)
					} else {
						rest = append(rest, o)
					}
				}
				outs = rest
				for _, m := range e.mergeOutcomes(atH, base) {
					outs = append(outs, e.run(m.st, H, firstNonPhi(H), stops)...)
				}
			}
			if J == nil {
				return outs
			}
			var res, atJ []Outcome
			for _, o := range outs {
				if o.kind == oStop && o.at == J && !inStops(J, stops) {
					atJ = append(atJ, o)
				} else {
					res = append(res, o)
				}
			}
			if inStops(J, stops) {
				// J is also an outer stop: merge what arrived there and hand over
				var atS []Outcome
				var rest []Outcome
				for _, o := range res {
					if o.kind == oStop && o.at == J {
						atS = append(atS, o)
					} else {
						rest = append(rest, o)
					}
				}
				return append(rest, e.mergeOutcomes(atS, base)...)
			}
			merged := e.mergeOutcomes(atJ, base)
			for _, m := range merged {
				res = append(res, e.run(m.st, J, firstNonPhi(J), stops)...)
			}
			return res
		case *ssa.Return:
			vals := make([]Value, len(t.Results))
			for i, r := range t.Results {
				vals[i] = e.eval(st, fr, r)
			}
			st.Frames = st.Frames[:len(st.Frames)-1]
			return []Outcome{{st: st, kind: oReturn, vals: vals}}
		case *ssa.Panic:
			v := e.eval(st, fr, t.X)
			st.Panicking = &PanicInfo{Val: v, Desc: "explicit panic", Site: e.prog.Fset.Position(t.Pos()).String()}
			return e.unwind(st)
		default:
			// a block may end in a non-terminator only for unreachable code; treat last instr as normal
			fail("unexpected terminator %T", t)
		}
	}
}

// mergeOutcomes greedily merges outcomes (all of the same kind/at) that share PC prefix `base`.
func (e *Exec) mergeOutcomes(outs []Outcome, base int) []Outcome {
	if len(outs) <= 1 {
		return outs
	}
	var acc []Outcome
	for _, o := range outs {
		done := false
		if len(o.st.PC) >= base {
			for i := range acc {
				if acc[i].kind != o.kind || acc[i].at != o.at || len(acc[i].vals) != len(o.vals) {
					continue
				}
				a := acc[i].st
				a.Ret, o.st.Ret = acc[i].vals, o.vals
				m, ok := mergeStates(a, o.st, base, o.at)
				if ok {
					e.merges++
					acc[i] = Outcome{st: m, kind: o.kind, vals: m.Ret, at: o.at}
					m.Ret = nil
					done = true
					break
				}
				a.Ret, o.st.Ret = nil, nil
			}
		}
		if !done {
			acc = append(acc, o)
		}
	}
	return acc
}

// unwind: st.Panicking is set; the top frame is the panicking function.
func (e *Exec) unwind(st *State) []Outcome {
	return e.runDefers(st, func(s *State) []Outcome {
		fr := s.Top()
		if s.Panicking == nil {
			// recovered: function returns normally via its Recover block
			if fr.Fn.Recover != nil && !fr.RecoverDone {
				fr.RecoverDone = true
				return e.run(s, fr.Fn.Recover, 0, nil)
			}
			res := fr.Fn.Signature.Results()
			vals := make([]Value, res.Len())
			for i := range vals {
				vals[i] = e.zero(res.At(i).Type())
			}
			s.Frames = s.Frames[:len(s.Frames)-1]
			return []Outcome{{st: s, kind: oReturn, vals: vals}}
		}
		s.Frames = s.Frames[:len(s.Frames)-1]
		return []Outcome{{st: s, kind: oPanic}}
	})
}

func (e *Exec) runDefers(st *State, k func(*State) []Outcome) []Outcome {
	fr := st.Top()
	if len(fr.Defers) == 0 {
		return k(st)
	}
	d := fr.Defers[len(fr.Defers)-1]
	fr.Defers = fr.Defers[:len(fr.Defers)-1]
	if os.Getenv("VERIF_DEBUG_DEFER") != "" {
		if f, ok := d.Fn.(*Func); ok && f != nil && f.Fn != nil {
			fmt.Fprintf(os.Stderr, "runDefers in %s: calling %s (panicking=%v, remaining=%d)\n", fr.Fn.Name(), f.Fn.Name(), st.Panicking != nil, len(fr.Defers))
		}
	}
	// the panic in flight is parked on the frame while the deferred call runs (the deferred function itself
	// executes normally; recover() called directly by it picks the parked panic up)
	if st.Panicking != nil {
		fr.Pending = st.Panicking
		st.Panicking = nil
	}
	depth := len(st.Frames)
	outs := e.callValue(st, d.Fn, d.Args, true, "defer")
	var res []Outcome
	for _, o := range outs {
		if len(o.st.Frames) != depth {
			fail("frame depth mismatch after deferred call")
		}
		ofr := o.st.Top()
		if o.st.Panicking == nil && ofr.Pending != nil {
			// not recovered and no new panic: the original panic continues
			o.st.Panicking = ofr.Pending
		}
		ofr.Pending = nil
		res = append(res, e.runDefers(o.st, k)...)
	}
	return res
}

// ---------- calls ----------

type StubFn func(e *Exec, st *State, fn *Func, args []Value, site string) []Outcome

func ret(st *State, vals ...Value) []Outcome {
	return []Outcome{{st: st, kind: oReturn, vals: vals}}
}

func (e *Exec) panicOut(st *State, val Value, desc, site string) []Outcome {
	st.Panicking = &PanicInfo{Val: val, Desc: desc, Site: site}
	return []Outcome{{st: st, kind: oPanic}}
}

func fnName(f *ssa.Function) string {
	if f.Origin() != nil {
		return f.Origin().String()
	}
	return f.String()
}

func (e *Exec) callValue(st *State, fv Value, args []Value, byDefer bool, site string) []Outcome {
	f, ok := fv.(*Func)
	if !ok || f == nil {
		return e.panicOut(st, e.runtimeError("invalid memory address or nil pointer dereference"), "call of nil function", site)
	}
	if f.Builtin != "" {
		return e.callBuiltin(st, f.Builtin, args, byDefer, site)
	}
	if f.Native != "" {
		h, ok := nativeStubs[f.Native]
		if !ok {
			fail("no native %s", f.Native)
		}
		return h(e, st, f, args, site)
	}
	if f.Bound != nil {
		args = append([]Value{f.Bound}, args...)
	}
	name := fnName(f.Fn)
	if r, ok := e.replace[name]; ok && (len(st.Frames) == 0 || st.Top().Fn != r) {
		e.stubsUsed["replaced by harness: "+name+" -> "+r.Name()] = true
		f = &Func{Fn: r, Free: f.Free}
		name = fnName(r)
	}
	if h := e.lookupStub(name); h != nil {
		e.stubsUsed[name] = true
		return h(e, st, f, args, site)
	}
	if f.Fn.Name() == "init" && f.Fn.Signature.Recv() == nil && f.Fn.Pkg != nil && !strings.HasPrefix(f.Fn.Pkg.Pkg.Path(), modPath) {
		return ret(st) // initialisers of third-party / standard packages are not run
	}
	if f.Fn.Blocks == nil {
		fail("call of external function without stub: %s (at %s)", name, site)
	}
	if strings.HasPrefix(name, "github.com/form3tech-oss/f1") || strings.HasPrefix(name, "(*github.com/form3tech-oss/f1") || strings.HasPrefix(name, "(github.com/form3tech-oss/f1") {
		e.funcsSeen[name] = true
	}
	if len(st.Frames) > 120 {
		fail("call depth exceeded at %s", name)
	}
	fr := &Frame{Fn: f.Fn, Env: make(map[ssa.Value]Value, 16), ByDefer: byDefer}
	if len(args) != len(f.Fn.Params) {
		fail("arg count mismatch calling %s: %d vs %d", name, len(args), len(f.Fn.Params))
	}
	for i, p := range f.Fn.Params {
		fr.Env[p] = args[i]
	}
	for i, fvv := range f.Fn.FreeVars {
		fr.Env[fvv] = f.Free[i]
	}
	base := len(st.PC)
	st.Frames = append(st.Frames, fr)
	outs := e.run(st, f.Fn.Blocks[0], 0, nil)
	if len(outs) > 1 {
		var rets, rest []Outcome
		for _, o := range outs {
			if o.kind == oReturn {
				rets = append(rets, o)
			} else {
				rest = append(rest, o)
			}
		}
		outs = append(e.mergeOutcomes(rets, base), rest...)
	}
	return outs
}

type callTarget struct {
	fn      Value
	args    []Value
	nilp    bool
	nilCond *Term // the interface receiver is nil under this condition (possibly-nil interface)
}

func (e *Exec) resolveCall(st *State, fr *Frame, c *ssa.CallCommon) callTarget {
	var args []Value
	if c.IsInvoke() {
		recv, ok := e.eval(st, fr, c.Value).(Iface)
		if !ok {
			fail("invoke on non-interface")
		}
		if recv.T == nil {
			return callTarget{nilp: true}
		}
		var nilCond *Term
		if recv.NilIf != nil && !recv.NilIf.IsFalse() {
			if recv.NilIf.IsTrue() {
				return callTarget{nilp: true}
			}
			nilCond = recv.NilIf
		}
		if so, ok := recv.V.(*StubObj); ok {
			_ = so
		}
		m := e.prog.LookupMethod(recv.T, c.Method.Pkg(), c.Method.Name())
		if m == nil {
			fail("method %s not found on %v", c.Method.Name(), recv.T)
		}
		args = append(args, recv.V)
		for _, a := range c.Args {
			args = append(args, e.eval(st, fr, a))
		}
		return callTarget{fn: &Func{Fn: m}, args: args, nilCond: nilCond}
	}
	fv := e.eval(st, fr, c.Value)
	for _, a := range c.Args {
		args = append(args, e.eval(st, fr, a))
	}
	return callTarget{fn: fv, args: args}
}

// ---------- evaluation of operands ----------

func (e *Exec) eval(st *State, fr *Frame, v ssa.Value) Value {
	switch x := v.(type) {
	case *ssa.Const:
		return e.constVal(x)
	case *ssa.Function:
		return &Func{Fn: x}
	case *ssa.Builtin:
		return &Func{Builtin: x.Name()}
	case *ssa.Global:
		return Ptr{Obj: e.globalObj(x)}
	}
	r, ok := fr.Env[v]
	if !ok {
		fail("undefined SSA value %s (%T) in %s", v.Name(), v, fr.Fn)
	}
	return r
}

func (e *Exec) constVal(c *ssa.Const) Value {
	t := c.Type()
	if c.Value == nil {
		return e.zero(t)
	}
	if tp, ok := t.(*types.TypeParam); ok {
		_ = tp
		fail("const of type param")
	}
	switch u := t.Underlying().(type) {
	case *types.Basic:
		info := u.Info()
		switch {
		case info&types.IsBoolean != 0:
			return BoolConst(c.Value.String() == "true")
		case info&types.IsInteger != 0:
			s := e.sortOf(t)
			if s.K == SInt {
				if info&types.IsUnsigned != 0 {
					return IntConst(int64(c.Uint64()))
				}
				return IntConst(c.Int64())
			}
			if info&types.IsUnsigned != 0 {
				return BVConst(c.Uint64(), s.W)
			}
			return BVConst(uint64(c.Int64()), s.W)
		case info&types.IsFloat != 0:
			if e.fpRelaxed {
				return realOfFloat(c.Float64())
			}
			return FPConst(c.Float64())
		case info&types.IsString != 0:
			return StrConst(constantString(c))
		}
	}
	fail("const: unsupported %v", t)
	return nil
}

// ---------- misc ----------

func (e *Exec) runtimeError(msg string) Value {
	rt := e.prog.ImportedPackage("runtime")
	if rt != nil {
		if t := rt.Type("errorString"); t != nil {
			return Iface{T: t.Type(), V: StrConst(msg)}
		}
	}
	return Iface{T: types.Typ[types.String], V: StrConst("runtime error: " + msg)}
}

func (e *Exec) pos(p token.Pos) string {
	if !p.IsValid() {
		return "?"
	}
	ps := e.prog.Fset.Position(p)
	f := ps.Filename
	if i := strings.Index(f, "/repo/"); i >= 0 {
		f = f[i+6:]
	}
	return fmt.Sprintf("%s:%d", f, ps.Line)
}

func (e *Exec) addOblig(o *Obligation) {
	if d := os.Getenv("VERIF_DEBUG_OBL"); d != "" && strings.Contains(o.ID, d) {
		fmt.Fprintf(os.Stderr, "OBL %s @%s\n  PC: %s\n  COND: %s\n", o.ID, o.Site, o.PC.str(12), o.Cond.str(12))
	}
	o.Harness = e.harness
	e.obligs = append(e.obligs, o)
}

func debugf(format string, a ...interface{}) {
	if os.Getenv("VERIF_DEBUG") != "" {
		fmt.Fprintf(os.Stderr, format+"\n", a...)
	}
}

func sortedKeys(m map[string]bool) []string {
	var ks []string
	for k := range m {
		ks = append(ks, k)
	}
	sort.Strings(ks)
	return ks
}

func asUnsupported(r interface{}) (unsupported, bool) {
	if u, ok := r.(unsupported); ok {
		return u, true
	}
	if re, ok := r.(runtime.Error); ok {
		if os.Getenv("VERIF_DEBUG") != "" {
			buf := make([]byte, 1<<14)
			n := runtime.Stack(buf, false)
			fmt.Fprintf(os.Stderr, "engine runtime error: %v\n%s\n", re, buf[:n])
		}
		return unsupported{"engine: " + re.Error()}, true
	}
	return unsupported{}, false
}

// ---------- independence slicing of path conditions ----------

var termVarsCache = map[int]map[int]bool{}

func termVars(t *Term) map[int]bool {
	if r, ok := termVarsCache[t.ID]; ok {
		return r
	}
	r := map[int]bool{}
	if t.Op == "var" || (t.Op == "uf") {
		if t.Op == "var" {
			r[t.ID] = true
		} else {
			// all applications of one UF are related through the function symbol
			r[-int(hashStr(t.S))-1] = true
		}
	}
	for _, a := range t.Args {
		for k := range termVars(a) {
			r[k] = true
		}
	}
	termVarsCache[t.ID] = r
	return r
}

func hashStr(s string) uint32 {
	h := uint32(2166136261)
	for i := 0; i < len(s); i++ {
		h = (h ^ uint32(s[i])) * 16777619
	}
	return h & 0x3fffffff
}

// sliceRelevant returns c plus the conjuncts of pc that (transitively) share variables with c.
func sliceRelevant(pc []*Term, c *Term) []*Term {
	rel := map[int]bool{}
	for k := range termVars(c) {
		rel[k] = true
	}
	used := make([]bool, len(pc))
	out := []*Term{c}
	for changed := true; changed; {
		changed = false
		for i, p := range pc {
			if used[i] {
				continue
			}
			vs := termVars(p)
			hit := len(vs) == 0 && false
			for k := range vs {
				if rel[k] {
					hit = true
					break
				}
			}
			if hit {
				used[i] = true
				changed = true
				out = append(out, p)
				for k := range vs {
					rel[k] = true
				}
			}
		}
	}
	return out
}

// lightRegion reports whether the branch region between blk and its immediate post-dominator is
// small, loop-free and free of calls/effects beyond loads and pure operators (typically a Go
// && / || chain or a small if/else assigning values). Such regions are explored on both sides
// without asking the solver for feasibility first: the sides are merged at the join anyway, and an
// infeasible side can only contribute guarded values (or panic obligations that the solver refutes).
func (e *Exec) lightRegion(fn *ssa.Function, blk *ssa.BasicBlock) bool {
	key := [2]interface{}{fn, blk.Index}
	if v, ok := e.lightCache[key]; ok {
		return v
	}
	J := e.ipdoms(fn)[blk.Index]
	res := false
	if J != nil && !e.noMerge {
		res = true
		seen := map[int]bool{}
		var stack []*ssa.BasicBlock
		for _, s := range blk.Succs {
			stack = append(stack, s)
		}
		for len(stack) > 0 && res {
			b := stack[len(stack)-1]
			stack = stack[:len(stack)-1]
			if b == J || seen[b.Index] {
				continue
			}
			if b == blk {
				res = false
				break
			}
			seen[b.Index] = true
			if len(seen) > 10 {
				res = false
				break
			}
			for _, ins := range b.Instrs {
				switch x := ins.(type) {
				case *ssa.Phi, *ssa.BinOp, *ssa.UnOp, *ssa.Field, *ssa.FieldAddr, *ssa.IndexAddr, *ssa.Extract, *ssa.Convert, *ssa.ChangeType,
					*ssa.MakeInterface, *ssa.ChangeInterface, *ssa.Jump, *ssa.If, *ssa.DebugRef, *ssa.Store, *ssa.Alloc, *ssa.Slice, *ssa.Index, *ssa.TypeAssert:
					if u, ok := x.(*ssa.UnOp); ok && u.Op == token.ARROW {
						res = false
					}
					if bo, ok := x.(*ssa.BinOp); ok && (bo.Op == token.QUO || bo.Op == token.REM) {
						res = false
					}
				default:
					res = false
				}
			}
			for _, s := range b.Succs {
				stack = append(stack, s)
			}
		}
	}
	e.lightCache[key] = res
	return res
}

// loopControl: the symbolic branch at the end of blk decides whether a loop continues, i.e. exactly one of its
// successors can reach blk again. (Branches inside a loop body are bounded by the loop's own controlling branch.)
func (e *Exec) loopControl(fn *ssa.Function, blk *ssa.BasicBlock) bool {
	key := [2]interface{}{fn, -1 - blk.Index}
	if v, ok := e.lightCache[key]; ok {
		return v
	}
	// natural loops: for every back edge t->h (h dominates t) the loop is h plus everything that reaches t
	// without passing through h; blk controls a loop when it lies in one and a successor leaves the innermost
	// such loop (a branch both of whose successors stay inside is body-internal and bounded by the loop's own
	// controlling branch; a loop without exit, e.g. for { select }, is bounded in selectOp)
	var inner map[int]bool
	for _, h := range fn.Blocks {
		loop := map[int]bool{}
		for _, t := range h.Preds {
			if !h.Dominates(t) {
				continue
			}
			loop[h.Index] = true
			stack := []*ssa.BasicBlock{t}
			for len(stack) > 0 {
				x := stack[len(stack)-1]
				stack = stack[:len(stack)-1]
				if loop[x.Index] {
					continue
				}
				loop[x.Index] = true
				stack = append(stack, x.Preds...)
			}
		}
		if loop[blk.Index] && (inner == nil || len(loop) < len(inner)) {
			inner = loop
		}
	}
	res := false
	if inner != nil {
		for _, s := range blk.Succs {
			if !inner[s.Index] {
				res = true
			}
		}
	}
	e.lightCache[key] = res
	return res
}

// loopHead returns the header of the innermost loop that contains blk (other than blk itself), or nil.
func (e *Exec) loopHead(fn *ssa.Function, blk *ssa.BasicBlock) *ssa.BasicBlock {
	key := [2]interface{}{fn, 1000000 + blk.Index}
	if v, ok := e.headCache[key]; ok {
		return v
	}
	var res *ssa.BasicBlock
	for d := blk.Idom(); d != nil; d = d.Idom() {
		// d dominates blk; is d reachable from blk (a cycle through d)?
		seen := map[int]bool{}
		stack := append([]*ssa.BasicBlock(nil), blk.Succs...)
		found := false
		for len(stack) > 0 && !found {
			b := stack[len(stack)-1]
			stack = stack[:len(stack)-1]
			if b == d {
				found = true
				break
			}
			if seen[b.Index] {
				continue
			}
			seen[b.Index] = true
			stack = append(stack, b.Succs...)
		}
		if found {
			res = d
			break
		}
	}
	e.headCache[key] = res
	return res
}
