package main

import (
	"encoding/json"
	"fmt"
	"os"
	"path/filepath"
	"sort"
)

func writeEvidence(prop, tier string, seed int, results []*HarnessResult, wall float64, errMsg string) {
	evaluations := 0
	nontrivial := map[string]bool{}
	obligations, discharged := 0, 0
	violations := 0
	var samples []interface{}
	funcs := map[string]bool{}
	stubs := map[string]bool{}
	solverS := 0.0
	var harnesses []interface{}
	bounds := map[string]interface{}{}
	covers, coversSat := 0, 0
	paths, forks, merges, feas := 0, 0, 0, 0
	known := []string{}
	inconclusive := []string{}
	events, threads := 0, 0
	states, steps, replays := 0, 0, 0
	validated, validatedOK := 0, 0
	for _, r := range results {
		if r == nil {
			continue
		}
		evaluations += r.Queries
		solverS += r.SolverS
		paths += r.Paths
		forks += r.Forks
		merges += r.Merges
		feas += r.FeasQ
		events += r.Events
		threads += r.Threads
		states += r.Forks + 1
		validated += r.Validated
		validatedOK += r.ValidatedOK
		steps += r.Steps
		replays += r.Replays
		for _, f := range r.Funcs {
			funcs[f] = true
		}
		for _, s := range r.Stubs {
			stubs[s] = true
		}
		bounds[r.Harness] = r.Bounds
		known = append(known, r.Known...)
		if r.Status != "ok" && r.Status != "violation" {
			inconclusive = append(inconclusive, r.Harness+": "+r.Msg)
		}
		violations += len(r.Violations)
		h := map[string]interface{}{"harness": r.Harness, "pkg": r.Pkg, "status": r.Status, "paths": r.Paths, "forks": r.Forks, "merges": r.Merges,
			"wall_s": r.WallS, "solver_s": r.SolverS, "fp_mode": r.FPMode, "msg": r.Msg}
		if r.Events > 0 {
			h["events"] = r.Events
			h["threads"] = r.Threads
		}
		harnesses = append(harnesses, h)
		for _, o := range r.Obligations {
			if o.Kind == "cover" {
				covers++
				if o.Res == "sat" {
					coversSat++
				}
				if !o.Trivial {
					nontrivial[r.Harness+"/witness:"+o.ID] = true
				}
				continue
			}
			obligations++
			if o.Res == "unsat" {
				discharged++
			}
			if !o.Trivial {
				nontrivial[r.Harness+"/"+o.ID] = true
			}
			if len(samples) < 12 && !o.Trivial {
				s := map[string]interface{}{"harness": r.Harness, "obligation": o.ID, "kind": o.Kind, "site": o.Site, "paths_merged_into_query": o.Count,
					"result": o.Res, "solver": o.Solver, "solver_s": o.SolverS, "bounds": r.Bounds}
				if o.Known != "" {
					s["known_finding"] = o.Known
				}
				if o.Model != nil {
					s["counterexample"] = o.Model
				}
				samples = append(samples, s)
			}
		}
	}
	if evaluations == 0 {
		evaluations = len(nontrivial)
	}
	if len(samples) == 0 {
		samples = append(samples, map[string]interface{}{"note": "no obligation produced", "error": errMsg})
	}
	fl := make([]string, 0, len(funcs))
	for f := range funcs {
		fl = append(fl, f)
	}
	sort.Strings(fl)
	sl := make([]string, 0, len(stubs))
	for s := range stubs {
		sl = append(sl, s)
	}
	sort.Strings(sl)
	cov := map[string]interface{}{
		"evaluations":         evaluations,
		"distinct_nontrivial": len(nontrivial),
		"rule": "evaluations = SMT queries issued (feasibility + obligations); an obligation is one (harness, assertion id) pair whose query is the disjunction over all symbolic paths reaching it of (path condition AND NOT assertion); " +
			"it is non-trivial when the query did not simplify to false syntactically and had to be decided by the solver; reachability witnesses (cover points, which must be satisfiable) decided by the solver are counted the same way; distinct = distinct (harness, id)",
		"samples":              samples,
		"obligations":          obligations,
		"discharged":           discharged,
		"vacuity_witnesses":    map[string]int{"cover_points": covers, "reachable": coversSat},
		"functions_encoded":    fl,
		"repo_source_hash":     srcHash(fl),
		"stubs":                sl,
		"bounds":               bounds,
		"symbolic_paths":       paths,
		"forks":                forks,
		"state_merges":         merges,
		"feasibility_queries":  feas,
		"solver_time_s":        solverS,
		"harnesses":            harnesses,
		"known_findings_seen":  known,
		"not_discharged":       inconclusive,
		"exhaustive":           false,
		"states":                        states,
		"transitions":                   steps,
		"traces_validated_against_impl": replays + validated,
		"translator_validation":         map[string]int{"witnesses_run_natively": validated, "agreeing": validatedOK},
		"states_rule":                   "states = symbolic states created (initial state of every harness plus one per fork); transitions = SSA instructions executed symbolically; traces_validated_against_impl = solver models run against the natively compiled code in this run (counterexample replays plus reachability witnesses of replayable harnesses, whose native run must pass every assertion)",
		"explanation":          "bounded symbolic execution of the go/ssa form of the listed functions; every obligation decided by an SMT solver for all values of the symbolic inputs inside the stated bounds",
	}
	if events > 0 {
		cov["concurrency_events"] = events
		cov["model_threads"] = threads
	}
	if errMsg != "" {
		cov["error"] = errMsg
	}
	ev := map[string]interface{}{
		"property_id": prop,
		"tier":        tier,
		"seed":        seed,
		"level":       "model_checking",
		"coverage":    cov,
		"assumptions": assumptionsFor(prop, sl),
		"wall_s":      wall,
		"violations":  violations,
	}
	b, _ := json.MarshalIndent(ev, "", " ")
	os.MkdirAll(filepath.Join(verifDir, "evidence"), 0o755)
	if err := os.WriteFile(filepath.Join(verifDir, "evidence", prop+".json"), b, 0o644); err != nil {
		fmt.Fprintln(os.Stderr, "evidence:", err)
	}
}

func assumptionsFor(prop string, stubs []string) []string {
	a := []string{
		"go/ssa (x/tools v0.29.0) faithfully represents the Go source; the engine's interpretation of SSA instructions is validated by native replay of counterexamples and by the translator self-tests",
		"integers are 64/32/8-bit bit-vectors with Go's wrap-around; implicit run-time panics (index, nil, divide) are modelled as paths",
		"time.Time is modelled as an int64 nanosecond instant plus validity flag (saturation at +-292y outside the model)",
		"clocks return arbitrary non-decreasing values; logging/formatting callees are no-ops returning opaque values",
	}
	b, err := os.ReadFile(filepath.Join(verifDir, "harness", prop, "ASSUMPTIONS.txt"))
	if err == nil {
		for _, l := range splitLines(string(b)) {
			if l != "" {
				a = append(a, l)
			}
		}
	}
	for _, s := range stubs {
		a = append(a, "stub: "+s)
	}
	return a
}

func splitLines(s string) []string {
	var out []string
	cur := ""
	for _, r := range s {
		if r == '\n' {
			out = append(out, cur)
			cur = ""
		} else {
			cur += string(r)
		}
	}
	if cur != "" {
		out = append(out, cur)
	}
	return out
}
