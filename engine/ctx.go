package main

import (
	"go/types"
)

// context model: a cancellable context is an object {cancelled Bool, deadlineHit Bool, parent, done chan, timeout}
// with dynamic type *context.cancelCtx (methods stubbed). Cancellation propagates to children lazily: Err() of a
// child consults its ancestors at read time.

const (
	cxCancelled = 0
	cxDeadline  = 1
	cxParent    = 2
	cxDone      = 3
	cxTimeout   = 4
	cxHasTO     = 5
)

func (e *Exec) ctxType() types.Type {
	cp := e.prog.ImportedPackage("context")
	if cp == nil || cp.Type("cancelCtx") == nil {
		fail("context package not loaded")
	}
	return types.NewPointer(cp.Type("cancelCtx").Type())
}

func (e *Exec) initContextGlobals(st *State) {
	cp := e.prog.ImportedPackage("context")
	if cp == nil {
		return
	}
	ep := e.prog.ImportedPackage("errors")
	if g := cp.Var("Canceled"); g != nil && ep != nil && ep.Type("errorString") != nil {
		id := e.newObj(st, &Struct{[]Value{StrConst("context canceled")}})
		st.Heap[e.globalObj(g)] = Iface{T: types.NewPointer(ep.Type("errorString").Type()), V: Ptr{Obj: id}}
	}
	if g := cp.Var("DeadlineExceeded"); g != nil && cp.Type("deadlineExceededError") != nil {
		st.Heap[e.globalObj(g)] = Iface{T: cp.Type("deadlineExceededError").Type(), V: &Struct{}}
	}
}

func (e *Exec) newCtx(st *State, parent Value, timeout *Term) (Value, Ptr) {
	hasTO := False
	if timeout != nil {
		hasTO = True
	} else {
		timeout = BVConst(0, 64)
	}
	chid := e.newObj(st, &Opaque{"chan"})
	if e.conc != nil {
		e.conc.makeChan(chid, 0)
	}
	id := e.newObj(st, &Struct{[]Value{False, False, parent, ChanRef{chid}, timeout, hasTO}})
	p := Ptr{Obj: id}
	return Iface{T: e.ctxType(), V: p}, p
}

// ctxErrState returns (cancelled-or-ancestor-cancelled, deadline-hit) as terms, reading through ancestors.
func (e *Exec) ctxErrState(st *State, ctx Value) (*Term, *Term) {
	iv, ok := ctx.(Iface)
	if !ok || iv.T == nil {
		return False, False
	}
	if !types.Identical(iv.T, e.ctxType()) {
		return False, False // Background, detached contexts etc. are never cancelled
	}
	p := iv.V.(Ptr)
	own := e.ctxLoad(st, p, cxCancelled).(*Term)
	dl := e.ctxLoad(st, p, cxDeadline).(*Term)
	obj := e.objContent(st, p.Obj).(*Struct)
	pc, pd := e.ctxErrState(st, obj.F[cxParent])
	// own deadline dominates only if it happened; parent state propagates
	return Or(own, pc), Or(dl, And(pd, Not(own)))
}

func (e *Exec) ctxLoad(st *State, p Ptr, field int) Value {
	cell := Ptr{Obj: p.Obj, Path: pathAppend(p.Path, field)}
	if e.conc != nil {
		e.conc.sharedLoad(e, st, cell, nil, "ctx", nil)
	}
	return e.load(st, cell)
}

func (e *Exec) ctxStore(st *State, p Ptr, field int, v Value) {
	cell := Ptr{Obj: p.Obj, Path: pathAppend(p.Path, field)}
	if e.conc != nil {
		if e.conc.sharedStore(e, st, cell, v, "ctx") {
			return
		}
	}
	e.store(st, cell, v)
}

func initCtxStubs() {
	stubTable["context.WithCancel"] = func(e *Exec, st *State, fn *Func, args []Value, site string) []Outcome {
		ctx, p := e.newCtx(st, args[0], nil)
		return ret(st, ctx, &Func{Native: "ctx.cancel", Bound: p})
	}
	stubTable["context.WithTimeout"] = func(e *Exec, st *State, fn *Func, args []Value, site string) []Outcome {
		ctx, p := e.newCtx(st, args[0], args[1].(*Term))
		e.ghostLog(st, "ctx.timeout", &Struct{[]Value{args[1], BVConst(uint64(p.Obj), 64)}})
		if e.conc != nil {
			e.conc.registerDeadline(e, st, p, args[1].(*Term))
		}
		return ret(st, ctx, &Func{Native: "ctx.cancel", Bound: p})
	}
	nativeStubs["ctx.cancel"] = func(e *Exec, st *State, fn *Func, args []Value, site string) []Outcome {
		p := fn.Bound.(Ptr)
		if e.conc != nil {
			return e.conc.ctxCancel(e, st, p, site)
		}
		e.ctxStore(st, p, cxCancelled, True)
		return ret(st)
	}
	cc := "(*context.cancelCtx)."
	stubTable[cc+"Err"] = func(e *Exec, st *State, fn *Func, args []Value, site string) []Outcome {
		if e.conc != nil {
			return e.conc.ctxErr(e, st, Iface{T: e.ctxType(), V: args[0]}, site)
		}
		c, d := e.ctxErrState(st, Iface{T: e.ctxType(), V: args[0]})
		return ret(st, e.ctxErrValue(st, c, d))
	}
	stubTable[cc+"Done"] = func(e *Exec, st *State, fn *Func, args []Value, site string) []Outcome {
		if e.conc != nil {
			return ret(st, e.conc.doneChan(e, st, args[0].(Ptr)))
		}
		obj := e.objContent(st, args[0].(Ptr).Obj).(*Struct)
		return ret(st, obj.F[cxDone])
	}
	stubTable[cc+"Value"] = func(e *Exec, st *State, fn *Func, args []Value, site string) []Outcome {
		return ret(st, Iface{})
	}
	stubTable[cc+"Deadline"] = func(e *Exec, st *State, fn *Func, args []Value, site string) []Outcome {
		return ret(st, e.zero(fn.Fn.Signature.Results().At(0).Type()), False)
	}
}

// ctxErrValue builds the error interface value for (cancelled, deadline) condition terms.
func (e *Exec) ctxErrValue(st *State, cancelled, deadline *Term) Value {
	cp := e.prog.ImportedPackage("context")
	canc := e.load(st, Ptr{Obj: e.globalObj(cp.Var("Canceled"))})
	dl := e.load(st, Ptr{Obj: e.globalObj(cp.Var("DeadlineExceeded"))})
	if cancelled.IsFalse() && deadline.IsFalse() {
		return Iface{}
	}
	if deadline.IsTrue() {
		return dl
	}
	if cancelled.IsTrue() && deadline.IsFalse() {
		return canc
	}
	if deadline.IsFalse() {
		ci := canc.(Iface)
		return Iface{T: ci.T, V: ci.V, NilIf: Not(cancelled)}
	}
	fail("context error with symbolic deadline state")
	return nil
}

// CondIface: an interface value that is Vals[i] under Conds[i] (mutually exclusive) and nil otherwise.
type CondIface struct {
	Conds []*Term
	Vals  []Value
}
