package main

// Static structure of a text/template source, handed to harnesses as concrete data (zz.TmplInt / zz.TmplStr): the
// template constants of /repo are parsed by the standard library's own parser on every run (text/template/parse); the
// harness then states the property over SYMBOLIC data against this structure (which value is rendered under which
// guards, which arguments a helper receives). The native twin of this file is in harness/zzverif/zzverif.go.

import (
	"strings"
	"text/template/parse"
)

type tmplUse struct {
	kind   string // "field" (an action rendering something) or "text"
	field  string // first field argument of the action's pipeline ("" if none)
	fn     string // first identifier (function) of the pipeline ("" if none)
	args   []string
	guards []string // enclosing conditions: "+Field" (if-branch), "-Field" (else-branch), "?..." (anything else)
	text   string
}

var tmplCache = map[string][]tmplUse{}

func tmplAnalyse(src string) []tmplUse {
	if u, ok := tmplCache[src]; ok {
		return u
	}
	t := parse.New("t")
	t.Mode = parse.SkipFuncCheck
	tree, err := t.Parse(src, "", "", map[string]*parse.Tree{})
	var out []tmplUse
	if err != nil {
		out = []tmplUse{{kind: "error", text: err.Error()}}
		tmplCache[src] = out
		return out
	}
	var walk func(n parse.Node, guards []string)
	pipeInfo := func(p *parse.PipeNode) (field, fn string, args []string) {
		if p == nil {
			return
		}
		for _, c := range p.Cmds {
			for _, a := range c.Args {
				switch x := a.(type) {
				case *parse.FieldNode:
					name := strings.Join(x.Ident, ".")
					if field == "" {
						field = name
					}
					args = append(args, name)
				case *parse.IdentifierNode:
					if fn == "" {
						fn = x.Ident
					}
				}
			}
		}
		return
	}
	cond := func(p *parse.PipeNode) string {
		if p != nil && len(p.Cmds) == 1 && len(p.Cmds[0].Args) == 1 {
			if f, ok := p.Cmds[0].Args[0].(*parse.FieldNode); ok {
				return strings.Join(f.Ident, ".")
			}
		}
		return ""
	}
	walk = func(n parse.Node, guards []string) {
		switch x := n.(type) {
		case *parse.ListNode:
			if x == nil {
				return
			}
			for _, c := range x.Nodes {
				walk(c, guards)
			}
		case *parse.TextNode:
			out = append(out, tmplUse{kind: "text", text: string(x.Text), guards: append([]string(nil), guards...)})
		case *parse.ActionNode:
			f, fn, args := pipeInfo(x.Pipe)
			out = append(out, tmplUse{kind: "field", field: f, fn: fn, args: args, guards: append([]string(nil), guards...)})
		case *parse.IfNode:
			c := cond(x.Pipe)
			if c == "" {
				c = "?complex"
				walk(x.List, append(append([]string(nil), guards...), c))
				walk(x.ElseList, append(append([]string(nil), guards...), c))
				return
			}
			walk(x.List, append(append([]string(nil), guards...), "+"+c))
			if x.ElseList != nil {
				walk(x.ElseList, append(append([]string(nil), guards...), "-"+c))
			}
		case *parse.RangeNode:
			walk(x.List, append(append([]string(nil), guards...), "?range"))
			walk(x.ElseList, append(append([]string(nil), guards...), "?range"))
		case *parse.WithNode:
			walk(x.List, append(append([]string(nil), guards...), "?with"))
			walk(x.ElseList, append(append([]string(nil), guards...), "?with"))
		}
	}
	walk(tree.Root, nil)
	tmplCache[src] = out
	return out
}

func tmplInt(src, what string, i int) int {
	u := tmplAnalyse(src)
	if what == "n" {
		return len(u)
	}
	if i < 0 || i >= len(u) {
		return 0
	}
	switch what {
	case "nargs":
		return len(u[i].args)
	case "nguards":
		return len(u[i].guards)
	}
	return 0
}

func tmplStr(src, what string, i, k int) string {
	u := tmplAnalyse(src)
	if i < 0 || i >= len(u) {
		return ""
	}
	switch what {
	case "kind":
		return u[i].kind
	case "field":
		return u[i].field
	case "func":
		return u[i].fn
	case "text":
		return u[i].text
	case "arg":
		if k >= 0 && k < len(u[i].args) {
			return u[i].args[k]
		}
	case "guard":
		if k >= 0 && k < len(u[i].guards) {
			return u[i].guards[k]
		}
	}
	return ""
}
