package main

import (
	"fmt"
	"go/constant"
	"go/token"
	"go/types"
	"math/big"
	"strings"

	"golang.org/x/tools/go/ssa"
)

func constantString(c *ssa.Const) string { return constant.StringVal(c.Value) }

func realOfFloat(f float64) *Term {
	r := new(big.Rat)
	if r.SetFloat64(f) == nil {
		fail("non-finite float constant in relaxed mode")
	}
	neg := r.Sign() < 0
	if neg {
		r.Neg(r)
	}
	s := fmt.Sprintf("(/ %s.0 %s.0)", r.Num().String(), r.Denom().String())
	if r.IsInt() {
		s = r.Num().String() + ".0"
	}
	if neg {
		s = "(- " + s + ")"
	}
	return RealConst(s)
}

// panicState returns a clone of st (or st itself when own) set to panic with a runtime error.
func (e *Exec) rtPanic(st *State, msg, site string) *State {
	st.Panicking = &PanicInfo{Val: e.runtimeError(msg), Desc: "runtime error: " + msg, Site: site}
	return st
}

// guard splits on a possibly symbolic panic condition: returns states; the panicking one (if feasible)
// has Panicking set. `bad` is the condition under which the runtime panics.
func (e *Exec) guard(st *State, bad *Term, msg, site string) (ok *State, out []*State) {
	if bad.IsFalse() {
		return st, nil
	}
	if bad.IsTrue() {
		return nil, []*State{e.rtPanic(st, msg, site)}
	}
	badF := e.feasible(st, bad)
	okF := e.feasible(st, Not(bad))
	if badF {
		p := st
		if okF {
			p = st.Clone()
		}
		p.Assume(bad)
		out = append(out, e.rtPanic(p, msg, site))
	}
	if okF {
		st.Assume(Not(bad))
		return st, out
	}
	return nil, out
}

func (e *Exec) step(st *State, fr *Frame, ins ssa.Instruction) []*State {
	site := e.pos(ins.Pos())
	e.curSite = site
	switch x := ins.(type) {
	case *ssa.DebugRef:
		return []*State{st}
	case *ssa.Alloc:
		id := e.newObj(st, e.zero(x.Type().(*types.Pointer).Elem()))
		if e.conc != nil {
			e.objSite[id] = site + "(" + x.Comment + ")"
		}
		fr.Env[x] = Ptr{Obj: id}
		return []*State{st}
	case *ssa.UnOp:
		return e.unop(st, fr, x, site)
	case *ssa.BinOp:
		return e.binop(st, fr, x, site)
	case *ssa.Store:
		p := e.eval(st, fr, x.Addr).(Ptr)
		if p.IsNil() {
			return []*State{e.rtPanic(st, "invalid memory address or nil pointer dereference", site)}
		}
		v := e.eval(st, fr, x.Val)
		if e.conc != nil {
			if e.conc.sharedStore(e, st, p, v, site) {
				return []*State{st}
			}
		}
		e.store(st, p, v)
		return []*State{st}
	case *ssa.FieldAddr:
		p := e.eval(st, fr, x.X).(Ptr)
		if p.IsNil() {
			return []*State{e.rtPanic(st, "invalid memory address or nil pointer dereference", site)}
		}
		fr.Env[x] = Ptr{Obj: p.Obj, Path: pathAppend(p.Path, x.Field)}
		return []*State{st}
	case *ssa.Field:
		s := e.eval(st, fr, x.X).(*Struct)
		fr.Env[x] = s.F[x.Field]
		return []*State{st}
	case *ssa.IndexAddr:
		return e.indexAddr(st, fr, x, site)
	case *ssa.Index:
		return e.index(st, fr, x, site)
	case *ssa.Lookup:
		return e.lookup(st, fr, x, site)
	case *ssa.Slice:
		return e.sliceOp(st, fr, x, site)
	case *ssa.MakeSlice:
		ln, ok1 := concreteInt(e.eval(st, fr, x.Len))
		cp, ok2 := concreteInt(e.eval(st, fr, x.Cap))
		if !ok1 || !ok2 {
			fail("make slice with symbolic length at %s", site)
		}
		if ln < 0 || cp < ln {
			return []*State{e.rtPanic(st, "makeslice: len out of range", site)}
		}
		el := x.Type().Underlying().(*types.Slice).Elem()
		arr := make([]Value, cp)
		z := e.zero(el)
		for i := range arr {
			arr[i] = z
		}
		id := e.newObj(st, &Struct{arr})
		fr.Env[x] = Slice{Arr: id, Off: 0, Len: int(ln), Cap: int(cp)}
		return []*State{st}
	case *ssa.MakeMap:
		id := e.newObj(st, &MapData{})
		fr.Env[x] = MapRef{id}
		return []*State{st}
	case *ssa.MapUpdate:
		m := e.eval(st, fr, x.Map).(MapRef)
		if m.Obj == 0 {
			st.Panicking = &PanicInfo{Val: e.runtimeError("assignment to entry in nil map"), Desc: "assignment to entry in nil map", Site: site}
			return []*State{st}
		}
		e.mapSet(st, m, e.eval(st, fr, x.Key), e.eval(st, fr, x.Value))
		return []*State{st}
	case *ssa.MakeChan:
		id := e.newObj(st, &Opaque{"chan"})
		fr.Env[x] = ChanRef{id}
		if e.conc != nil {
			sz, _ := concreteInt(e.eval(st, fr, x.Size))
			e.conc.makeChan(id, int(sz))
		}
		return []*State{st}
	case *ssa.MakeClosure:
		fn := x.Fn.(*ssa.Function)
		free := make([]Value, len(x.Bindings))
		for i, b := range x.Bindings {
			free[i] = e.eval(st, fr, b)
		}
		fr.Env[x] = &Func{Fn: fn, Free: free}
		return []*State{st}
	case *ssa.MakeInterface:
		v := e.eval(st, fr, x.X)
		fr.Env[x] = Iface{T: x.X.Type(), V: v}
		return []*State{st}
	case *ssa.ChangeInterface:
		fr.Env[x] = e.eval(st, fr, x.X)
		return []*State{st}
	case *ssa.ChangeType:
		fr.Env[x] = e.eval(st, fr, x.X)
		return []*State{st}
	case *ssa.Convert:
		fr.Env[x] = e.convert(st, e.eval(st, fr, x.X), x.X.Type(), x.Type(), site)
		return []*State{st}
	case *ssa.MultiConvert:
		fr.Env[x] = e.convert(st, e.eval(st, fr, x.X), x.X.Type(), x.Type(), site)
		return []*State{st}
	case *ssa.SliceToArrayPointer:
		fail("SliceToArrayPointer unsupported")
	case *ssa.Extract:
		t := e.eval(st, fr, x.Tuple).(*Struct)
		fr.Env[x] = t.F[x.Index]
		return []*State{st}
	case *ssa.TypeAssert:
		return e.typeAssert(st, fr, x, site)
	case *ssa.Range:
		return e.rangeOp(st, fr, x, site)
	case *ssa.Next:
		return e.nextOp(st, fr, x, site)
	case *ssa.Call:
		return e.callInstr(st, fr, x, site)
	case *ssa.Defer:
		ct := e.resolveCall(st, fr, x.Common())
		if ct.nilp {
			// deferred call of nil func panics when executed
			fr.Defers = append(fr.Defers, Deferred{Fn: (*Func)(nil)})
		} else {
			fr.Defers = append(fr.Defers, Deferred{Fn: ct.fn, Args: ct.args})
		}
		return []*State{st}
	case *ssa.RunDefers:
		outs := e.runDefers(st, func(s *State) []Outcome { return []Outcome{{st: s, kind: oStop}} })
		var res []*State
		for _, o := range outs {
			res = append(res, o.st)
		}
		return res
	case *ssa.Go:
		if e.conc == nil && e.cfg["go"] == "ignore" {
			// harness directive: goroutines spawned on this path are irrelevant to the obligations and not run
			e.stubsUsed["go statement ignored at "+site] = true
			return []*State{st}
		}
		if e.conc == nil {
			fail("go statement in sequential mode at %s", site)
		}
		ct := e.resolveCall(st, fr, x.Common())
		e.conc.spawn(e, st, ct, site)
		return []*State{st}
	case *ssa.Send:
		if e.conc == nil {
			fail("channel send in sequential mode at %s", site)
		}
		return e.conc.send(e, st, fr, x, site)
	case *ssa.Select:
		if e.conc == nil {
			fail("select in sequential mode at %s", site)
		}
		return e.conc.selectOp(e, st, fr, x, site)
	}
	fail("unsupported instruction %T at %s", ins, site)
	return nil
}

func concreteInt(v Value) (int64, bool) {
	t, ok := v.(*Term)
	if !ok || !t.IsConst() || (t.Sort.K != SBV && t.Sort.K != SInt) {
		return 0, false
	}
	return t.SVal(), true
}

// ---------- unary / binary ----------

func (e *Exec) unop(st *State, fr *Frame, x *ssa.UnOp, site string) []*State {
	v := e.eval(st, fr, x.X)
	switch x.Op {
	case token.MUL:
		p := v.(Ptr)
		if p.IsNil() {
			return []*State{e.rtPanic(st, "invalid memory address or nil pointer dereference", site)}
		}
		if e.conc != nil {
			if sts, ok := e.conc.sharedLoad(e, st, p, x.Type(), site, func(s *State, v Value) { s.Top().Env[x] = v }); ok {
				return sts
			}
		}
		fr.Env[x] = e.load(st, p)
	case token.NOT:
		fr.Env[x] = Not(v.(*Term))
	case token.SUB:
		t := v.(*Term)
		switch t.Sort.K {
		case SBV:
			fr.Env[x] = BVNeg(t)
		case SFP:
			fr.Env[x] = FPNeg(t)
		case SReal:
			fr.Env[x] = App("-", RealSort, t)
		}
	case token.XOR:
		fr.Env[x] = BVNot(v.(*Term))
	case token.ARROW:
		if e.conc == nil {
			fail("channel receive in sequential mode at %s", site)
		}
		return e.conc.recv(e, st, fr, x, site)
	default:
		fail("unop %v", x.Op)
	}
	return []*State{st}
}

func (e *Exec) binop(st *State, fr *Frame, x *ssa.BinOp, site string) []*State {
	a := e.eval(st, fr, x.X)
	b := e.eval(st, fr, x.Y)
	switch x.Op {
	case token.EQL:
		fr.Env[x] = e.eqVal(a, b)
		return []*State{st}
	case token.NEQ:
		fr.Env[x] = Not(e.eqVal(a, b))
		return []*State{st}
	}
	ta, ok1 := a.(*Term)
	tb, ok2 := b.(*Term)
	if !ok1 || !ok2 {
		fail("binop %v on non-scalars %T %T at %s", x.Op, a, b, site)
	}
	xt := x.X.Type()
	switch ta.Sort.K {
	case SBool:
		switch x.Op {
		case token.AND, token.LAND:
			fr.Env[x] = And(ta, tb)
		case token.OR, token.LOR:
			fr.Env[x] = Or(ta, tb)
		default:
			fail("bool binop %v", x.Op)
		}
		return []*State{st}
	case SString:
		fr.Env[x] = e.strBinop(x.Op, ta, tb)
		return []*State{st}
	case SFP:
		fr.Env[x] = e.fpBinop(x.Op, ta, tb)
		return []*State{st}
	case SReal:
		fr.Env[x] = e.realBinop(st, x.Op, ta, tb)
		return []*State{st}
	}
	// bit-vectors (or mathematical integers in math-int mode; the BV constructors dispatch on the sort)
	signed := isSigned(xt)
	w := ta.Sort.W
	if ta.Sort.K == SInt {
		signed, w = true, 64
		if x.Op == token.SHL || x.Op == token.SHR || x.Op == token.AND || x.Op == token.OR || x.Op == token.XOR || x.Op == token.AND_NOT {
			if x.Op == token.SHL && tb.IsConst() && tb.SVal() >= 0 && tb.SVal() < 62 {
				fr.Env[x] = intBin("bvmul", ta, IntConst(int64(1)<<uint(tb.SVal())))
				return []*State{st}
			}
			fail("bit operation %v on mathematical integers at %s", x.Op, site)
		}
	}
	switch x.Op {
	case token.ADD:
		fr.Env[x] = BVBin("bvadd", ta, tb)
	case token.SUB:
		fr.Env[x] = BVBin("bvsub", ta, tb)
	case token.MUL:
		fr.Env[x] = BVBin("bvmul", ta, tb)
		if ta.Sort.K == SInt && !ta.IsConst() && !tb.IsConst() && strings.Contains(site, "/") && !strings.Contains(site, "zz_verif_") {
			// mathematical-integer mode does not model wrap-around: a product of two symbolic machine integers in
			// the code under test must provably stay inside int64, otherwise the claim would silently exclude it
			r := fr.Env[x].(*Term)
			lim := IntConst(1 << 62)
			inRange := And(App("<=", BoolSort, App("-", IntSort, lim), r), App("<", BoolSort, r, lim))
			e.addOblig(&Obligation{ID: e.harness + ".no_int64_overflow_in_product", Kind: "assert", PC: st.PCTerm(), Cond: inRange, Site: site, NoReplay: true})
		}
	case token.QUO, token.REM:
		ok, outs := e.guard(st, Eq(tb, BVConst(0, w)), "integer divide by zero", site)
		if ta.Sort.K == SInt && ok != nil {
			opn := "bvsdiv"
			if x.Op == token.REM {
				opn = "bvsrem"
			}
			ok.Top().Env[x] = intBin(opn, ta, tb)
			return append(outs, ok)
		}
		if ok != nil {
			op := map[bool]map[token.Token]string{true: {token.QUO: "bvsdiv", token.REM: "bvsrem"}, false: {token.QUO: "bvudiv", token.REM: "bvurem"}}[signed][x.Op]
			if e.cfg["div"] == "uf" && !tb.IsConst() {
				// division abstracted as an uninterpreted function (sound for unsat; sat must replay)
				ok.Top().Env[x] = UF(fmt.Sprintf("%s_%d", op, w), ta.Sort, ta, tb)
			} else {
				ok.Top().Env[x] = BVBin(op, ta, tb)
			}
			outs = append(outs, ok)
		}
		return outs
	case token.AND:
		fr.Env[x] = BVBin("bvand", ta, tb)
	case token.OR:
		fr.Env[x] = BVBin("bvor", ta, tb)
	case token.XOR:
		fr.Env[x] = BVBin("bvxor", ta, tb)
	case token.AND_NOT:
		fr.Env[x] = BVBin("bvand", ta, BVNot(tb))
	case token.SHL, token.SHR:
		// shift count: unsigned or (non-negative) signed, possibly different width
		cnt := tb
		if cnt.Sort.W < w {
			cnt = ZeroExt(cnt, w)
		} else if cnt.Sort.W > w {
			// saturate
			big := BVCmp("bvule", BVConst(uint64(w), cnt.Sort.W), cnt)
			cnt = Ite(big, BVConst(uint64(w), w), Extract(w-1, 0, cnt))
		}
		if isSigned(x.Y.Type()) {
			ok, outs := e.guard(st, BVCmp("bvslt", tb, BVConst(0, tb.Sort.W)), "negative shift amount", site)
			if ok == nil {
				return outs
			}
			st = ok
			fr = st.Top()
			defer func() {}()
			op := "bvshl"
			if x.Op == token.SHR {
				op = "bvlshr"
				if signed {
					op = "bvashr"
				}
			}
			fr.Env[x] = BVBin(op, ta, cnt)
			return append(outs, st)
		}
		op := "bvshl"
		if x.Op == token.SHR {
			op = "bvlshr"
			if signed {
				op = "bvashr"
			}
		}
		fr.Env[x] = BVBin(op, ta, cnt)
	case token.LSS:
		fr.Env[x] = BVCmp(pick(signed, "bvslt", "bvult"), ta, tb)
	case token.LEQ:
		fr.Env[x] = BVCmp(pick(signed, "bvsle", "bvule"), ta, tb)
	case token.GTR:
		fr.Env[x] = BVCmp(pick(signed, "bvslt", "bvult"), tb, ta)
	case token.GEQ:
		fr.Env[x] = BVCmp(pick(signed, "bvsle", "bvule"), tb, ta)
	default:
		fail("bv binop %v", x.Op)
	}
	return []*State{st}
}

func pick(c bool, a, b string) string {
	if c {
		return a
	}
	return b
}

func (e *Exec) fpBinop(op token.Token, a, b *Term) *Term {
	switch op {
	case token.ADD:
		return FPBin("fp.add", a, b)
	case token.SUB:
		return FPBin("fp.sub", a, b)
	case token.MUL:
		return FPBin("fp.mul", a, b)
	case token.QUO:
		return FPBin("fp.div", a, b)
	case token.LSS:
		return FPCmp("fp.lt", a, b)
	case token.LEQ:
		return FPCmp("fp.leq", a, b)
	case token.GTR:
		return FPCmp("fp.gt", a, b)
	case token.GEQ:
		return FPCmp("fp.geq", a, b)
	}
	fail("fp binop %v", op)
	return nil
}

func (e *Exec) strBinop(op token.Token, a, b *Term) *Term {
	switch op {
	case token.ADD:
		return strConcat(a, b)
	case token.LSS:
		if a.IsConst() && b.IsConst() {
			return BoolConst(a.S < b.S)
		}
		return App("str.<", BoolSort, a, b)
	case token.LEQ:
		if a.IsConst() && b.IsConst() {
			return BoolConst(a.S <= b.S)
		}
		return App("str.<=", BoolSort, a, b)
	case token.GTR:
		if a.IsConst() && b.IsConst() {
			return BoolConst(a.S > b.S)
		}
		return App("str.<", BoolSort, b, a)
	case token.GEQ:
		if a.IsConst() && b.IsConst() {
			return BoolConst(a.S >= b.S)
		}
		return App("str.<=", BoolSort, b, a)
	}
	fail("string binop %v", op)
	return nil
}

func strConcat(a, b *Term) *Term {
	if a.IsConst() && b.IsConst() {
		return StrConst(a.S + b.S)
	}
	if a.IsConst() && a.S == "" {
		return b
	}
	if b.IsConst() && b.S == "" {
		return a
	}
	return App("str.++", StringSort, a, b)
}

// ---------- conversions ----------

func (e *Exec) convert(st *State, v Value, from, to types.Type, site string) Value {
	fu, tu := from.Underlying(), to.Underlying()
	if t, ok := v.(*Term); ok {
		fb, ok1 := fu.(*types.Basic)
		tb, ok2 := tu.(*types.Basic)
		if ok1 && ok2 {
			switch {
			case fb.Info()&types.IsInteger != 0 && tb.Info()&types.IsInteger != 0:
				if t.Sort.K == SInt {
					return t
				}
				tw := e.sortOf(to).W
				if tw <= t.Sort.W {
					return Extract(tw-1, 0, t)
				}
				if isSigned(from) {
					return SignExt(t, tw)
				}
				return ZeroExt(t, tw)
			case fb.Info()&types.IsInteger != 0 && tb.Info()&types.IsFloat != 0:
				if e.fpRelaxed {
					return e.intToReal(st, t, isSigned(from))
				}
				if isSigned(from) {
					return FPFromSBV(t)
				}
				return FPFromUBV(t)
			case fb.Info()&types.IsFloat != 0 && tb.Info()&types.IsInteger != 0:
				tw := 64
				if !mathInts {
					tw = e.sortOf(to).W
				}
				if e.fpRelaxed {
					return e.realToInt(st, t, tw, isSigned(to))
				}
				if isSigned(to) {
					return FPToSBV(t, tw)
				}
				return FPToUBV(t, tw)
			case fb.Info()&types.IsFloat != 0 && tb.Info()&types.IsFloat != 0:
				return t
			case fb.Info()&types.IsString != 0 && tb.Info()&types.IsString != 0:
				return t
			case fb.Info()&types.IsInteger != 0 && tb.Info()&types.IsString != 0:
				if t.IsConst() {
					return StrConst(string(rune(t.SVal())))
				}
				return App("str.from_code", StringSort, App("bv2nat", IntSort, t))
			}
		}
		// string -> []byte / []rune
		if ok1 && fb.Info()&types.IsString != 0 {
			if _, ok := tu.(*types.Slice); ok {
				if !t.IsConst() {
					fail("string->slice conversion of symbolic string at %s", site)
				}
				bs := []byte(t.S)
				arr := make([]Value, len(bs))
				for i, b := range bs {
					arr[i] = BVConst(uint64(b), 8)
				}
				id := e.newObj(st, &Struct{arr})
				return Slice{Arr: id, Len: len(bs), Cap: len(bs)}
			}
		}
	}
	if s, ok := v.(Slice); ok {
		if tb, ok := tu.(*types.Basic); ok && tb.Info()&types.IsString != 0 {
			// []byte -> string
			var sb strings.Builder
			if s.Arr != 0 {
				arr := e.objContent(st, s.Arr).(*Struct)
				for i := 0; i < s.Len; i++ {
					c, ok := arr.F[s.Off+i].(*Term)
					if !ok || !c.IsConst() {
						return e.fresh("bytes2str", StringSort)
					}
					sb.WriteByte(byte(c.U))
				}
			}
			return StrConst(sb.String())
		}
	}
	if _, ok := v.(*Opaque); ok {
		if tb, ok := tu.(*types.Basic); ok && tb.Info()&types.IsString != 0 {
			return e.fresh("opaque2str", StringSort)
		}
		return v
	}
	if p, ok := v.(Ptr); ok {
		// pointer conversions (unsafe.Pointer etc.)
		return p
	}
	fail("convert %v -> %v unsupported at %s (%T)", from, to, site, v)
	return nil
}

// ---------- indexing ----------

func (e *Exec) indexAddr(st *State, fr *Frame, x *ssa.IndexAddr, site string) []*State {
	base := e.eval(st, fr, x.X)
	idx := e.eval(st, fr, x.Index).(*Term)
	if idx.Sort.K == SBV && idx.Sort.W < 64 {
		if isSigned(x.Index.Type()) {
			idx = SignExt(idx, 64)
		} else {
			idx = ZeroExt(idx, 64)
		}
	}
	var obj, off, n int
	var path string
	switch b := base.(type) {
	case Slice:
		obj, off, n = b.Arr, b.Off, b.Len
	case Ptr:
		if b.IsNil() {
			return []*State{e.rtPanic(st, "invalid memory address or nil pointer dereference", site)}
		}
		arr := e.load(st, b).(*Struct)
		obj, off, n, path = b.Obj, 0, len(arr.F), b.Path
	default:
		fail("indexaddr on %T", base)
	}
	if c, ok := concreteInt(idx); ok {
		if c < 0 || int(c) >= n {
			return []*State{e.rtPanic(st, fmt.Sprintf("index out of range [%d] with length %d", c, n), site)}
		}
		fr.Env[x] = Ptr{Obj: obj, Path: pathAppend(path, off+int(c))}
		return []*State{st}
	}
	// symbolic index: out-of-range panic path + one path per feasible index
	var outs []*State
	bad := Not(BVCmp("bvult", idx, BVConst(uint64(n), 64)))
	if e.feasible(st, bad) {
		p := st.Clone()
		p.Assume(bad)
		outs = append(outs, e.rtPanic(p, "index out of range (symbolic index)", site))
	}
	for i := 0; i < n; i++ {
		c := Eq(idx, BVConst(uint64(i), 64))
		if !e.feasible(st, c) {
			continue
		}
		s := st.Clone()
		s.Assume(c)
		s.Top().Env[x] = Ptr{Obj: obj, Path: pathAppend(path, off+i)}
		outs = append(outs, s)
	}
	return outs
}

func (e *Exec) index(st *State, fr *Frame, x *ssa.Index, site string) []*State {
	base := e.eval(st, fr, x.X)
	idx := e.eval(st, fr, x.Index).(*Term)
	if t, ok := base.(*Term); ok && t.Sort.K == SString {
		return e.strIndex(st, fr, x, t, idx, site)
	}
	arr := base.(*Struct)
	c, ok := concreteInt(idx)
	if !ok {
		fail("symbolic Index of array value at %s", site)
	}
	if c < 0 || int(c) >= len(arr.F) {
		return []*State{e.rtPanic(st, "index out of range", site)}
	}
	fr.Env[x] = arr.F[c]
	return []*State{st}
}

func (e *Exec) lookup(st *State, fr *Frame, x *ssa.Lookup, site string) []*State {
	base := e.eval(st, fr, x.X)
	key := e.eval(st, fr, x.Index)
	if t, ok := base.(*Term); ok && t.Sort.K == SString {
		return e.strIndex(st, fr, x, t, key.(*Term), site)
	}
	m := base.(MapRef)
	elem := x.X.Type().Underlying().(*types.Map).Elem()
	val, found := e.mapGet(st, m, key, elem)
	if x.CommaOk {
		fr.Env[x] = &Struct{[]Value{val, found}}
	} else {
		fr.Env[x] = val
	}
	return []*State{st}
}

func (e *Exec) mapGet(st *State, m MapRef, key Value, elem types.Type) (Value, *Term) {
	zero := e.zero(elem)
	if m.Obj == 0 {
		return zero, False
	}
	md := e.objContent(st, m.Obj).(*MapData)
	val := zero
	found := False
	// later entries take precedence; build ite chain from first to last
	for i := range md.Keys {
		c := e.eqVal(md.Keys[i], key)
		if c.IsFalse() {
			continue
		}
		mv, ok := mergeVal(c, md.Vals[i], val)
		if !ok {
			fail("map lookup with unmergeable symbolic key match")
		}
		val = mv
		found = Ite(c, True, found)
	}
	return val, found
}

func (e *Exec) mapSet(st *State, m MapRef, key, val Value) {
	md := e.objContent(st, m.Obj).(*MapData)
	nd := &MapData{Keys: append([]Value(nil), md.Keys...), Vals: append([]Value(nil), md.Vals...)}
	for i := range nd.Keys {
		c := e.eqVal(nd.Keys[i], key)
		if c.IsTrue() {
			nd.Vals[i] = val
			st.Heap[m.Obj] = nd
			return
		}
		if !c.IsFalse() {
			fail("map update with symbolic key aliasing")
		}
	}
	nd.Keys = append(nd.Keys, key)
	nd.Vals = append(nd.Vals, val)
	st.Heap[m.Obj] = nd
}

func (e *Exec) sliceOp(st *State, fr *Frame, x *ssa.Slice, site string) []*State {
	base := e.eval(st, fr, x.X)
	getI := func(v ssa.Value, def int64) (int64, *Term) {
		if v == nil {
			return def, nil
		}
		t := e.eval(st, fr, v).(*Term)
		if c, ok := concreteInt(t); ok {
			return c, nil
		}
		return 0, t
	}
	if t, ok := base.(*Term); ok && t.Sort.K == SString {
		return e.strSlice(st, fr, x, t, site)
	}
	var obj, off, ln, cp int
	switch b := base.(type) {
	case Slice:
		obj, off, ln, cp = b.Arr, b.Off, b.Len, b.Cap
	case Ptr:
		if b.IsNil() {
			return []*State{e.rtPanic(st, "invalid memory address or nil pointer dereference", site)}
		}
		arr := e.load(st, b).(*Struct)
		if b.Path != "" {
			fail("slicing of nested array unsupported")
		}
		obj, off, ln, cp = b.Obj, 0, len(arr.F), len(arr.F)
	default:
		fail("slice of %T", base)
	}
	lo, sl := getI(x.Low, 0)
	hi, sh := getI(x.High, int64(ln))
	mx, sm := getI(x.Max, int64(cp))
	if sl != nil || sh != nil || sm != nil {
		fail("symbolic slice bounds at %s", site)
	}
	if lo < 0 || hi < lo || hi > int64(cp) || mx < hi || mx > int64(cp) {
		return []*State{e.rtPanic(st, "slice bounds out of range", site)}
	}
	fr.Env[x] = Slice{Arr: obj, Off: off + int(lo), Len: int(hi - lo), Cap: int(mx - lo)}
	return []*State{st}
}

// ---------- type assertions ----------

func (e *Exec) typeAssert(st *State, fr *Frame, x *ssa.TypeAssert, site string) []*State {
	v := e.eval(st, fr, x.X).(Iface)
	if v.NilIf != nil && !v.NilIf.IsFalse() && v.T != nil {
		// possibly-nil interface: split into the nil and the non-nil case
		var outs []*State
		nilF, nonF := e.feasible(st, v.NilIf), e.feasible(st, Not(v.NilIf))
		if nilF {
			s := st
			if nonF {
				s = st.Clone()
			}
			s.Assume(v.NilIf)
			s.Top().Env[x.X] = Iface{}
			outs = append(outs, e.typeAssert(s, s.Top(), x, site)...)
		}
		if nonF {
			st.Assume(Not(v.NilIf))
			st.Top().Env[x.X] = Iface{T: v.T, V: v.V}
			outs = append(outs, e.typeAssert(st, st.Top(), x, site)...)
		}
		return outs
	}
	ok := false
	var res Value
	if v.T != nil {
		if it, isI := x.AssertedType.Underlying().(*types.Interface); isI {
			ok = types.Implements(v.T, it)
			if !ok {
				if _, isP := v.T.(*types.Pointer); !isP {
					// method sets of T vs *T are handled by Implements already
				}
			}
			res = v
		} else {
			ok = types.Identical(v.T, x.AssertedType)
			res = v.V
		}
	}
	if x.CommaOk {
		if !ok {
			res = e.zero(x.AssertedType)
		}
		fr.Env[x] = &Struct{[]Value{res, BoolConst(ok)}}
		return []*State{st}
	}
	if !ok {
		st.Panicking = &PanicInfo{Val: e.runtimeError("interface conversion failed"), Desc: "interface conversion", Site: site}
		return []*State{st}
	}
	fr.Env[x] = res
	return []*State{st}
}

// ---------- range / next ----------

func (e *Exec) rangeOp(st *State, fr *Frame, x *ssa.Range, site string) []*State {
	base := e.eval(st, fr, x.X)
	switch b := base.(type) {
	case MapRef:
		it := &IterData{}
		if b.Obj != 0 {
			md := e.objContent(st, b.Obj).(*MapData)
			it.Keys = append(it.Keys, md.Keys...)
			it.Vals = append(it.Vals, md.Vals...)
		}
		n := len(it.Keys)
		if n > 1 && e.cfg["maporder"] != "insertion" {
			// symbolic iteration order: fork over all permutations (n <= 4)
			if n > 4 {
				fail("map range over %d entries: too many permutations", n)
			}
			var outs []*State
			perms := permutations(n)
			choice := e.fresh("maporder", BV(64))
			for pi, p := range perms {
				s := st
				if pi < len(perms)-1 {
					s = st.Clone()
				}
				// the chosen iteration order is part of the path condition (forked states must be distinguishable
				// when they are merged again)
				s.Assume(Eq(choice, BVConst(uint64(pi), 64)))
				nit := &IterData{}
				for _, j := range p {
					nit.Keys = append(nit.Keys, it.Keys[j])
					nit.Vals = append(nit.Vals, it.Vals[j])
				}
				id := e.newObj(s, nit)
				s.Top().Env[x] = Ptr{Obj: id}
				outs = append(outs, s)
			}
			e.forks += len(perms) - 1
			return outs
		}
		id := e.newObj(st, it)
		fr.Env[x] = Ptr{Obj: id}
		return []*State{st}
	case *Term:
		if !b.IsConst() {
			fail("range over symbolic string at %s", site)
		}
		it := &IterData{IsStr: true}
		for i, r := range b.S {
			it.Keys = append(it.Keys, BVConst(uint64(i), 64))
			it.Vals = append(it.Vals, BVConst(uint64(r), 32))
		}
		id := e.newObj(st, it)
		fr.Env[x] = Ptr{Obj: id}
		return []*State{st}
	}
	fail("range over %T", base)
	return nil
}

func permutations(n int) [][]int {
	if n == 0 {
		return [][]int{{}}
	}
	var out [][]int
	var rec func(cur []int, used []bool)
	rec = func(cur []int, used []bool) {
		if len(cur) == n {
			out = append(out, append([]int(nil), cur...))
			return
		}
		for i := 0; i < n; i++ {
			if !used[i] {
				used[i] = true
				rec(append(cur, i), used)
				used[i] = false
			}
		}
	}
	rec(nil, make([]bool, n))
	return out
}

func (e *Exec) nextOp(st *State, fr *Frame, x *ssa.Next, site string) []*State {
	p := e.eval(st, fr, x.Iter).(Ptr)
	it := e.objContent(st, p.Obj).(*IterData)
	tup := x.Type().(*types.Tuple)
	zeroOr := func(t types.Type) Value {
		if b, ok := t.(*types.Basic); ok && b.Kind() == types.Invalid {
			return nil // component not used by the loop
		}
		return e.zero(t)
	}
	if it.Pos >= len(it.Keys) {
		fr.Env[x] = &Struct{[]Value{False, zeroOr(tup.At(1).Type()), zeroOr(tup.At(2).Type())}}
		return []*State{st}
	}
	k, v := it.Keys[it.Pos], it.Vals[it.Pos]
	st.Heap[p.Obj] = &IterData{Keys: it.Keys, Vals: it.Vals, Pos: it.Pos + 1, IsStr: it.IsStr}
	fr.Env[x] = &Struct{[]Value{True, k, v}}
	return []*State{st}
}

// ---------- calls ----------

func (e *Exec) callInstr(st *State, fr *Frame, x *ssa.Call, site string) []*State {
	ct := e.resolveCall(st, fr, x.Common())
	if ct.nilp {
		return []*State{e.rtPanic(st, "invalid memory address or nil pointer dereference", site)}
	}
	var nilPanic []*State
	if ct.nilCond != nil {
		nf, of := e.feasible(st, ct.nilCond), e.feasible(st, Not(ct.nilCond))
		if nf && !of {
			return []*State{e.rtPanic(st, "invalid memory address or nil pointer dereference", site)}
		}
		if nf {
			p := st.Clone()
			p.Assume(ct.nilCond)
			nilPanic = append(nilPanic, e.rtPanic(p, "invalid memory address or nil pointer dereference", site))
		}
		st.Assume(Not(ct.nilCond))
	}
	depth := len(st.Frames)
	var outs []Outcome
	if e.lenient {
		func() {
			defer func() {
				if r := recover(); r != nil {
					if _, ok := asUnsupported(r); !ok {
						panic(r)
					}
					st.Frames = st.Frames[:depth]
					st.Panicking = nil
					var vals []Value
					if tup, ok := x.Type().(*types.Tuple); ok {
						for i := 0; i < tup.Len(); i++ {
							vals = append(vals, &Opaque{"init"})
						}
					} else {
						vals = []Value{&Opaque{"init"}}
					}
					outs = ret(st, vals...)
				}
			}()
			outs = e.callValue(st, ct.fn, ct.args, false, site)
		}()
	} else {
		outs = e.callValue(st, ct.fn, ct.args, false, site)
	}
	res := nilPanic
	for _, o := range outs {
		if len(o.st.Frames) != depth {
			fail("frame depth mismatch after call at %s: %d vs %d", site, len(o.st.Frames), depth)
		}
		if o.kind == oPanic {
			res = append(res, o.st)
			continue
		}
		var rv Value
		switch len(o.vals) {
		case 0:
			rv = nil
		case 1:
			rv = o.vals[0]
		default:
			rv = &Struct{o.vals}
		}
		if x.Type() != nil {
			if tup, ok := x.Type().(*types.Tuple); ok && tup.Len() == 1 && len(o.vals) == 1 {
				rv = o.vals[0]
			}
		}
		o.st.Top().Env[x] = rv
		res = append(res, o.st)
	}
	return res
}
