package testing_test

import (
	"bytes"
	"log/slog"
	"testing"

	"github.com/stretchr/testify/require"

	f1testing "github.com/form3tech-oss/f1/v2/pkg/f1/testing"
)

type brokenErr struct{ msg string }

func (e *brokenErr) Error() string { return e.msg } // a nil *brokenErr panics here

func TestZZPanicWithTypedNilErrorIsContained(t *testing.T) {
	var buf bytes.Buffer
	logger := slog.New(slog.NewTextHandler(&buf, nil))
	newT, teardown := f1testing.NewTWithOptions("test", f1testing.WithLogger(logger))
	defer teardown()
	escaped := func() (r any) {
		defer func() { r = recover() }()
		func() {
			defer f1testing.CheckResults(newT, nil)
			var e *brokenErr
			panic(error(e))
		}()
		return nil
	}()
	require.Nil(t, escaped, "a panic escaped CheckResults: the worker goroutine would die and take the process down")
	require.True(t, newT.Failed())
}
