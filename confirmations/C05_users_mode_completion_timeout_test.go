package run_test

import (
	"testing"
	"time"
)

func TestZZUsersModeMaxDurationReachedTimesOut(t *testing.T) {
	given, when, then := NewRunTestStage(t)

	given.
		a_timer_is_started().
		a_trigger_type_of(Users).and().
		a_concurrency_of(1).and().
		a_duration_of(500 * time.Millisecond).and().
		a_scenario_where_each_iteration_takes(3 * time.Second).and().
		wait_for_completion_timeout_of(1 * time.Second)

	when.
		the_run_command_is_executed()

	then.
		setup_teardown_is_called_within(600*time.Millisecond + 1*time.Second)

	time.Sleep(3 * time.Second)
}
