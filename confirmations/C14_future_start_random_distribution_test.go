package staged

import (
	"testing"
	"time"
)

func TestZZFutureStartTimeRandomDistributionDoesNotCrash(t *testing.T) {
	for _, dist := range []string{"none", "regular", "random"} {
		future := time.Now().Add(time.Hour)
		rates, err := CalculateStagedRate(0, time.Second, "0s:1, 10s:1", dist, &future)
		if err != nil {
			t.Fatalf("%s: rejected: %v", dist, err)
		}
		func() {
			defer func() {
				if r := recover(); r != nil {
					t.Errorf("distribution %s: evaluating the rate before the start time panicked: %v", dist, r)
				}
			}()
			for i := 0; i < 3; i++ {
				t.Logf("%s: rate = %d", dist, rates.Rate(time.Now()))
			}
		}()
	}
}
