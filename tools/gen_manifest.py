#!/usr/bin/env python3
"""Regenerates MANIFEST.json from tools/checks.json (claimed checks) and properties.jsonl."""
import json, os
here = os.path.dirname(os.path.abspath(__file__))
root = os.path.dirname(here)
checks = json.load(open(os.path.join(here, "checks.json")))
props = [json.loads(l)["id"] for l in open(os.path.join(root, "properties.jsonl"))]
baseline = json.load(open("/root/.vp/BASELINE.json"))["cmd"] if os.path.exists("/root/.vp/BASELINE.json") else "cd /repo && go test -vet=off -count=1 ./..."
m = {
 "version": 1,
 "setup_cmd": "cd engine && GOFLAGS=-mod=mod GOPROXY=off GOSUMDB=off GOTOOLCHAIN=local go build -o ../bin/vengine .",
 "hooks": {
  "guard": "verif",
  "enable": "no source hooks: harness files and the internal/zzverif intrinsics package are injected per run by overlay (go/packages Overlay for SSA, go test -overlay for native replay); /repo is never modified by a check",
  "baseline_off_cmd": "cd /repo && GOFLAGS=-mod=mod GOPROXY=off GOSUMDB=off go test -vet=off -count=1 -timeout 25m ./...",
  "source_commits": [],
  "add_only": True
 },
 "engines": [{
  "name": "vengine",
  "path": "engine/",
  "serves_properties": sorted(checks["checks"].keys()),
  "kind_free_text": "bounded symbolic executor for go/ssa (x/tools v0.29.0) emitting SMT-LIB2 (bit-vectors, IEEE floats, reals, strings, partial-order clocks) decided by z3 4.8.12 / z3 5.1.0 / cvc5 1.0.3; counterexamples replayed natively with go test -overlay"
 }],
 "checks": [],
 "notes": checks.get("notes", ""),
 "not_applicable": []
}
for pid in props:
    c = checks["checks"].get(pid)
    if c is None:
        m["not_applicable"].append({"property_id": pid, "reason": checks["not_applicable"].get(pid, "check not built yet in this session (engine support pending); see DESIGN.md")})
        continue
    m["checks"].append({
     "property_id": pid,
     "quick_cmd": "./check %s quick" % pid,
     "thorough_cmd": "./check %s thorough" % pid,
     "evidence_file": "evidence/%s.json" % pid,
     "replay_cmd_template": "sh {path}/replay.sh",
     "engine": "vengine",
     "level_claimed": {"category": "model_checking", "text": c["text"], "design_ref": c.get("design_ref", "DESIGN.md section 3, " + pid)},
     "level_note": c["note"],
     "technique": c.get("technique", "bounded symbolic execution of the real code (go/ssa -> SMT-LIB), obligations decided by SMT solver")
    })
json.dump(m, open(os.path.join(root, "MANIFEST.json"), "w"), indent=1)
print("checks:", len(m["checks"]), "n/a:", len(m["not_applicable"]))
