#!/bin/bash
# usage: tools/scratch_check.sh <seeded-name> <prop> [extra vengine args]   — runs a check against a scratch copy of /repo with the seeded patch applied
N=$1; P=$2; shift 2
T=/tmp/scratch/s_$N.$$; mkdir -p /tmp/scratch; rsync -a --delete --exclude .git /repo/ $T/
(cd $T && patch -p1 -s < /verif/seeded/$N/patch.diff) || { echo "patch does not apply"; rm -rf $T; exit 9; }
cd /verif
VERIF_NO_EVIDENCE=1 VERIF_OUT=/tmp/scratch/o_$N.$$ VERIF_REPO=$T ./check $P quick "$@"; rc=$?
rm -rf $T /tmp/scratch/o_$N.$$
echo "exit=$rc"
