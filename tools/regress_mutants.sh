#!/bin/bash
# Re-runs every seeded change under /verif/seeded/*/patch.diff against the quick check of its property and prints one
# line per change (exit 1 = detected).
#   default:            applies each patch to /repo (git apply), runs the check, reverts (git checkout -- .); /repo must be clean
#   MUT_SCRATCH=1 [J=n]: uses scratch copies of /repo's working tree under /tmp/scratch instead (n in parallel), so that
#                        /repo stays untouched while something else is reading it
cd /verif
export VERIF_NO_EVIDENCE=1   # evidence files describe runs against the unchanged /repo only
mkdir -p out
one() {
  d=$1; n=$(basename $d)
  p=$(python3 -c "import json;print(json.load(open('$d/meta.json'))['property'])")
  s=$(date +%s)
  if [ -n "${MUT_SCRATCH:-}" ]; then
    T=/tmp/scratch/r_$n; mkdir -p /tmp/scratch; rsync -a --delete --exclude .git /repo/ $T/
    (cd $T && patch -p1 -s < /verif/$d/patch.diff) || { echo "$n: patch does not apply"; rm -rf $T; return; }
    VERIF_OUT=/tmp/scratch/o_$n VERIF_DIR=/verif VERIF_REPO=$T timeout 2400 ./bin/vengine -prop $p -tier quick > out/regress_$n.log 2>&1; rc=$?
    rm -rf $T /tmp/scratch/o_$n
  else
    git -C /repo apply /verif/$d/patch.diff 2>/dev/null || { echo "$n: patch does not apply"; return; }
    timeout 2400 ./check $p quick > out/regress_$n.log 2>&1; rc=$?
    git -C /repo checkout -- .
  fi
  e=$(date +%s)
  echo "$n property=$p exit=$rc wall=$((e-s))s $(grep -h VIOLATION out/regress_$n.log | head -1 | sed 's/.*obligation=\([^ ]*\).*/\1/')"
}
export -f one
if [ -n "${MUT_SCRATCH:-}" ]; then
  ls -d seeded/*/ | xargs -P ${J:-4} -I{} bash -c 'one {}'
else
  [ -z "$(git -C /repo status --porcelain)" ] || { echo "/repo not clean"; exit 1; }
  for d in seeded/*/; do one $d; done
fi
