#!/bin/bash
# applies every seeded change under /verif/seeded/*/patch.diff to /repo, runs the quick check of its property,
# reverts; prints one line per mutant. /repo must be clean.
cd /verif
export VERIF_NO_EVIDENCE=1   # evidence files describe runs against the unchanged /repo only
[ -z "$(git -C /repo status --porcelain)" ] || { echo "/repo not clean"; exit 1; }
for d in seeded/*/; do
  n=$(basename $d)
  p=$(python3 -c "import json;print(json.load(open('$d/meta.json'))['property'])")
  git -C /repo apply /verif/$d/patch.diff 2>/dev/null || { echo "$n: patch does not apply"; continue; }
  s=$(date +%s)
  timeout 2400 ./check $p quick > out/regress_$n.log 2>&1; rc=$?
  e=$(date +%s)
  git -C /repo checkout -- .
  echo "$n property=$p exit=$rc wall=$((e-s))s $(grep -h VIOLATION out/regress_$n.log | head -1 | sed 's/.*obligation=\([^ ]*\).*/\1/')"
done
