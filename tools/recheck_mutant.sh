#!/bin/bash
# usage: tools/recheck_mutant.sh <seeded-name> <check ids...>   (applies the stored patch to /repo, runs the quick checks, reverts)
set -u
export VERIF_NO_EVIDENCE=1   # evidence files describe runs against the unchanged /repo only
NAME=$1; shift
OUT=/verif/seeded/$NAME
git -C /repo status --porcelain | grep -q . && { echo "/repo not clean"; exit 1; }
git -C /repo apply $OUT/patch.diff || { echo "patch does not apply"; exit 1; }
RES=""
for c in "$@"; do
  (cd /verif && timeout 1500 ./check $c quick > $OUT/check_$c.txt 2>&1); rc=$?
  RES="$RES $c=exit$rc"
  grep -h "VIOLATION" $OUT/check_$c.txt | head -3 | cut -c1-260
done
git -C /repo checkout -- .
echo "RESULT $NAME checks:$RES"
python3 - "$OUT/meta.json" "$RES" <<'PY'
import json,sys
p=sys.argv[1]; m=json.load(open(p)); m["checks_run"]=sys.argv[2]; json.dump(m,open(p,"w"),indent=1)
PY
