#!/bin/bash
# runs every check of MANIFEST.json (quick or thorough) sequentially; prints exit code and wall time per property
TIER=${1:-quick}
mkdir -p "$(dirname "$0")/../out"
cd "$(dirname "$0")/.."
for p in $(python3 -c "import json;print(' '.join(c['property_id'] for c in json.load(open('MANIFEST.json'))['checks']))"); do
  s=$(date +%s)
  timeout ${2:-2400} ./check $p $TIER > out/run_$p.$TIER.log 2>&1; rc=$?
  e=$(date +%s)
  echo "$p exit=$rc wall=$((e-s))s $(grep -c VIOLATION out/run_$p.$TIER.log) violations, $(grep -c inconclusive out/run_$p.$TIER.log) inconclusive"
done
