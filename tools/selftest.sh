#!/bin/bash
# engine self-tests: harnesses with a KNOWN answer (some must pass, some must be reported as violations)
cd "$(dirname "$0")/.."
export VERIF_NO_EVIDENCE=1
fail=0
expect() { # <prop> <harness> <status>
  got=$(./check $1 quick -only $2 2>&1 | grep "^\[$1\] $2 " | awk '{print $3}')
  if [ "$got" = "$3" ]; then echo "ok   $2: $got"; else echo "FAIL $2: expected $3, got '$got'"; fail=1; fi
}
expect T01 VerifT01_Cond ok
expect T01 VerifT01_NoDeadlock ok
expect T01 VerifT01_LostWakeup violation
expect T02 VerifT02_DeferOrder ok
expect T02 VerifT02_ResetBeforeRecover ok
expect T03 VerifT03_PublishAfterSpawn ok
expect T03 VerifT03_RacyRead violation
expect T04 VerifT04_BufferedChannelDrained ok
expect T04 VerifT04_BufferedSendBlocks violation
expect T04 VerifT04_GoroutinePanic violation
expect T05 VerifT05_SplitTrimStructure ok
expect T05 VerifT05_WrongClaimIsRefuted violation
exit $fail
