#!/bin/bash
# usage: tools/try_mutant.sh <name> <worktree> <property> [check ids...]
# 1. confirms the seeded change in its worktree (builds, existing tests pass, demo fails with it and passes without)
# 2. stores it under /verif/seeded/<name>/  3. applies it to /repo, runs the given checks (quick), reverts /repo
set -u
export VERIF_NO_EVIDENCE=1   # evidence files describe runs against the unchanged /repo only
export GOFLAGS=-mod=mod GOPROXY=off GOSUMDB=off GOTOOLCHAIN=local
NAME=$1; WT=$2; PROP=$3; shift 3
OUT=/verif/seeded/$NAME; mkdir -p $OUT
cd $WT || exit 1
DEMO=$(git status --porcelain | grep 'zz_demo_test.go' | awk '{print $2}' | head -1)
[ -f MUTANT.diff ] || { echo "no MUTANT.diff"; exit 1; }
cp MUTANT.diff $OUT/patch.diff; cp MUTANT.md $OUT/ 2>/dev/null; [ -n "$DEMO" ] && cp $DEMO $OUT/$(basename $DEMO)
PKG=./$(dirname "$DEMO")
echo "== with change: build + existing tests"
go build ./... || { echo "BUILD FAILS"; exit 1; }
mv $DEMO /tmp/zz_demo_hold_$NAME.go
go test -vet=off -count=1 -timeout 20m ./... 2>&1 | grep -v "no test files" | grep -v "^ok" | head -20 > $OUT/existing_tests_with_change.txt
mv /tmp/zz_demo_hold_$NAME.go $DEMO
EXIST=$(grep -c FAIL $OUT/existing_tests_with_change.txt)
echo "existing-suite FAIL lines with change: $EXIST"
go test -vet=off -count=1 -run 'Demo' $PKG > $OUT/demo_with_change.txt 2>&1; W=$?
# (no git stash: the stash is shared between all worktrees of a repository)
git apply -R $OUT/patch.diff || { echo "cannot reverse the patch"; exit 1; }
go test -vet=off -count=1 -run 'Demo' $PKG > $OUT/demo_without_change.txt 2>&1; WO=$?
git apply $OUT/patch.diff
echo "demo exit with change: $W (want != 0), without: $WO (want 0)"
if [ -n "${MUT_SCRATCH:-}" ]; then
  # /repo is busy (a full run is reading it): use a scratch copy of /repo's working tree instead
  TARGET=/tmp/scratch/m_$NAME; mkdir -p /tmp/scratch; rsync -a --delete --exclude .git /repo/ $TARGET/
  (cd $TARGET && patch -p1 -s < $OUT/patch.diff) || { echo "patch does not apply to the scratch copy"; exit 1; }
  export VERIF_REPO=$TARGET
else
  cd /repo && git apply $OUT/patch.diff || { echo "patch does not apply to /repo"; exit 1; }
fi
RES=""
for c in "$@"; do
  (cd /verif && timeout 1500 ./check $c quick > $OUT/check_$c.txt 2>&1); rc=$?
  RES="$RES $c=exit$rc"
  grep -h "VIOLATION" $OUT/check_$c.txt | head -3 | cut -c1-260
done
if [ -n "${MUT_SCRATCH:-}" ]; then rm -rf $TARGET; else git -C /repo checkout -- . ; fi
echo "RESULT $NAME prop=$PROP existing_fail=$EXIST demo_with=$W demo_without=$WO checks:$RES"
cat > $OUT/meta.json <<EOM
{"name":"$NAME","property":"$PROP","source":"independent sub-agent in scratch worktree","existing_suite_fail_lines_with_change":$EXIST,
 "demo_exit_with_change":$W,"demo_exit_without_change":$WO,"checks_run":"$RES","needs":"see MUTANT.md"}
EOM
