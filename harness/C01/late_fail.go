//verif:pkg internal/workers
package workers

import (
	"github.com/form3tech-oss/f1/v2/internal/metrics"
	"github.com/form3tech-oss/f1/v2/internal/progress"
	zz "github.com/form3tech-oss/f1/v2/internal/zzverif"
	"github.com/form3tech-oss/f1/v2/pkg/f1/scenarios"
	"github.com/form3tech-oss/f1/v2/pkg/f1/testing"
)

var c01Recorded []metrics.ResultType

func c01RecordIteration(_ *metrics.Metrics, _ string, r metrics.ResultType, _ int64) {
	c01Recorded = append(c01Recorded, r)
}

// VerifC01_OffGoroutineFailClassifiedOnce: T.Fail is documented as callable from other goroutines. The iteration
// body hands its T to a helper goroutine which fails it at an ARBITRARY moment (before the body returns, between any
// two steps of ActiveScenario.Run, or after it), through the real Run / CheckResults / teardown. Whatever the
// interleaving, the iteration is classified ONCE: the outcome handed to the exported-metrics sink is the outcome
// counted in the progress statistics (the result), and exactly one finished iteration is counted.
//
//verif:conc
//verif:timeout 120
//verif:replace (*$M/internal/metrics.Metrics).RecordIterationResult c01RecordIteration
func VerifC01_OffGoroutineFailClassifiedOnce() { c01LateFail() }

// VerifC16_OffGoroutineFailLabel: the same harness under C16: the result label of the exported iteration sample is
// the outcome counted in the result, also when the T is failed from a helper goroutine at an arbitrary moment.
//
//verif:conc
//verif:timeout 120
//verif:replace (*$M/internal/metrics.Metrics).RecordIterationResult c01RecordIteration
func VerifC16_OffGoroutineFailLabel() { c01LateFail() }

func c01LateFail() {
	c01Recorded = nil
	stats := &progress.Stats{}
	sc := &scenarios.Scenario{Name: "scn"}
	as := NewActiveScenario(sc, &metrics.Metrics{}, stats, nil, nil)
	sc.RunFn = func(t *testing.T) {
		go func() { t.Fail() }()
	}
	state := as.newIterationState()
	state.t.Reset("0")
	as.Run(state)
	tot := stats.Total()
	zz.Cover("C01.latefail.done")
	zz.Assert("C01.latefail.one_metrics_sample", len(c01Recorded) == 1)
	zz.Assert("C01.latefail.one_iteration_counted", tot.SuccessfulIterationDurations.Count+tot.FailedIterationDurations.Count == 1 && tot.DroppedIterationCount == 0)
	if len(c01Recorded) == 1 {
		zz.Assert("C01.latefail.same_outcome_in_metrics_and_result", (c01Recorded[0] == metrics.FailedResult) == (tot.FailedIterationDurations.Count == 1))
		zz.CoverIf("C01.latefail.seen_as_failed", c01Recorded[0] == metrics.FailedResult)
		zz.CoverIf("C01.latefail.seen_as_success", c01Recorded[0] == metrics.SuccessResult)
	}
}
