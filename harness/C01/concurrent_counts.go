//verif:pkg internal/progress
package progress

import (
	"sync"

	"github.com/form3tech-oss/f1/v2/internal/metrics"
	zz "github.com/form3tech-oss/f1/v2/internal/zzverif"
)

// c01Run: W worker threads each record K finished iterations (outcome and duration symbolic) into one Stats while
// the main thread takes M mid-run snapshots at arbitrary points; after all workers are done (wait-group join) the
// final totals are taken. Every interleaving of the atomic operations of Record / CollectLifetime / Update / Reset
// is covered by one query per obligation.
func c01Run(workers, perWorker, midSnapshots int) {
	var s Stats
	var wg sync.WaitGroup
	wg.Add(workers)
	kinds := []metrics.ResultType{metrics.SuccessResult, metrics.FailedResult, metrics.DroppedResult}
	for w := 0; w < workers; w++ {
		w := w
		go func() {
			for j := 0; j < perWorker; j++ {
				res := zz.Choice("res", 3, w, j)
				d := zz.Int64("d", w, j)
				zz.Assume(d > 0)
				zz.Assume(d < 1<<30)
				if res == 2 {
					d = 0
				}
				s.Record(kinds[res], d)
			}
			wg.Done()
		}()
	}
	var prevS, prevF, prevD uint64
	for i := 0; i < midSnapshots; i++ {
		snap := s.Snapshot(1)
		zz.Assert("C01.snapshot_counts_never_decrease", snap.SuccessfulIterationDurations.Count >= prevS &&
			snap.FailedIterationDurations.Count >= prevF && snap.DroppedIterationCount >= prevD)
		prevS, prevF, prevD = snap.SuccessfulIterationDurations.Count, snap.FailedIterationDurations.Count, snap.DroppedIterationCount
	}
	wg.Wait()
	tot := s.Total()
	var ns, nf, nd uint64
	for w := 0; w < workers; w++ {
		for j := 0; j < perWorker; j++ {
			switch zz.Int("res", w, j) {
			case 0:
				ns++
			case 1:
				nf++
			case 2:
				nd++
			}
		}
	}
	zz.Cover("C01.conc.done")
	zz.Assert("C01.final_successful_count_exact", tot.SuccessfulIterationDurations.Count == ns)
	zz.Assert("C01.final_failed_count_exact", tot.FailedIterationDurations.Count == nf)
	zz.Assert("C01.final_dropped_count_exact", tot.DroppedIterationCount == nd)
	zz.Assert("C01.final_not_below_last_snapshot", tot.SuccessfulIterationDurations.Count >= prevS && tot.FailedIterationDurations.Count >= prevF)
}

// VerifC01_TwoWorkersOneSnapshot: 2 workers x 1 record, 1 mid-run snapshot + final totals.
//
//verif:conc
//verif:timeout 120
func VerifC01_TwoWorkersOneSnapshot() { c01Run(2, 1, 1) }

// VerifC01_TwoWorkersTwoRecords: 2 workers x 2 records, 2 mid-run snapshots + final totals.
//
//verif:conc
//verif:timeout 300
func VerifC01_TwoWorkersTwoRecords() { c01Run(2, 2, 2) }

// VerifC01_ThreeWorkers: 3 workers x 2 records, 2 mid-run snapshots + final totals.
//
//verif:conc
//verif:tier thorough
//verif:timeout 1200
func VerifC01_ThreeWorkers() { c01Run(3, 2, 2) }
