//verif:pkg internal/trigger/file
package file

import (
	"time"

	zz "github.com/form3tech-oss/f1/v2/internal/zzverif"
)

// VerifC14_FileWorkers: a config file with one users-mode stage whose concurrency (stage, default and limits level,
// each present or not) is ARBITRARY: it is either rejected or every accepted plan has at least one worker at the
// run level and in the users stage (a users stage with 0 users would be run as a rate stage without a rate
// function and crash when triggered).
//
//verif:replace gopkg.in/yaml.v3.Unmarshal c15Unmarshal
//verif:noreplay yaml.Unmarshal is replaced by a harness stand-in
func VerifC14_FileWorkers() {
	st := Stage{Mode: c15Str("users"), Duration: c15Dur(5 * time.Second)}
	var def Stage
	if zz.Bool("has.stage.concurrency") {
		st.Concurrency = c15Int(zz.Int("stage.concurrency"))
	}
	if zz.Bool("has.default.concurrency") {
		def.Concurrency = c15Int(zz.Int("default.concurrency"))
	}
	c15Config = ConfigFile{Scenario: c15Str("scn"), Limits: c15Limits(), Default: def, Stages: []Stage{st}}
	rs, err := ParseConfigFile(nil, zz.Time(1<<40))
	zz.Cover("C14.workers.returned")
	zz.CoverIf("C14.workers.accepted", err == nil)
	if err != nil {
		return
	}
	zz.Assert("C14.workers.run_level_concurrency_at_least_one", rs.Concurrency >= 1)
	zz.Assert("C14.workers.users_stage_has_users", len(rs.Stages) == 1 && rs.Stages[0].UsersConcurrency >= 1)
}
