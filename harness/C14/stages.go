//verif:pkg internal/trigger/staged
package staged

import (
	"strconv"
	"strings"
	"time"

	zz "github.com/form3tech-oss/f1/v2/internal/zzverif"
)

// VerifC14_ParseStages: ParseStages on an ARBITRARY string of up to 7 characters over the alphabet of the stages
// grammar and its near-misses: never panics; when accepted, the number of stages is the number of comma-separated
// elements and every stage is exactly (ParseDuration(trimmed first part), Atoi(trimmed second part)).
//
// NOT REGISTERED (tier off): the string queries of this harness are not decided by z3 5.1 / cvc5 in reasonable time
// (<= 7 characters: over the 90-minute thorough limit; <= 5 characters: the first obligation is still unknown after
// 7 minutes). Kept for the record; ParseStages is therefore only covered through the staged-trigger builder harness.
//
//verif:timeout 200
//verif:solver z3new
//verif:splitmax 3
//verif:tier off
func VerifC14_ParseStages() {
	s := zz.String("stages")
	zz.Assume(len(s) <= 7)
	zz.Assume(zz.InAlphabet(s, "019:,sm -"))
	st, err := ParseStages(s)
	zz.Cover("C14.stages.returned")
	zz.CoverIf("C14.stages.accepted_two", err == nil && len(st) == 2)
	zz.CoverIf("C14.stages.rejected", err != nil)
	if err != nil {
		zz.Assert("C14.stages.rejected_returns_no_stages", st == nil)
		return
	}
	parts := strings.Split(s, ",")
	zz.Assert("C14.stages.one_stage_per_element", len(st) == len(parts))
	if len(st) != len(parts) {
		return
	}
	for i, p := range parts {
		el := strings.Split(strings.TrimSpace(p), ":")
		if len(el) != 2 {
			zz.Assert("C14.stages.malformed_element_rejected", false)
			return
		}
		d, derr := time.ParseDuration(strings.TrimSpace(el[0]))
		t, terr := strconv.Atoi(strings.TrimSpace(el[1]))
		zz.Assert("C14.stages.element_means_what_it_spells", derr == nil && terr == nil && st[i].Duration == d && st[i].EndTarget == t)
	}
}

// VerifC14_StagedTrigger: CalculateStagedRate with an ARBITRARY tick frequency (any int64 duration), distribution
// none/regular/random/unknown and a fixed valid stages string: it is either rejected or yields a runnable trigger
// (positive tick interval, non-nil rate function).
func VerifC14_StagedTrigger() {
	freq := time.Duration(zz.Int64("frequency"))
	dist := []string{"none", "regular", "random", "bogus"}[zz.Choice("dist", 4)]
	rates, err := CalculateStagedRate(0, freq, "10s:5", dist, nil)
	zz.Cover("C14.staged.returned")
	zz.CoverIf("C14.staged.accepted", err == nil)
	if err != nil {
		return
	}
	zz.Assert("C14.staged.accepted_trigger_is_runnable", rates.IterationDuration > 0 && rates.Rate != nil)
}
