//verif:pkg internal/trigger/staged
package staged

import (
	"strconv"
	"strings"
	"time"

	zz "github.com/form3tech-oss/f1/v2/internal/zzverif"
)

// VerifC14_ParseStages: ParseStages on an ARBITRARY string of up to 7 characters over the alphabet of the stages
// grammar and its near-misses: never panics; when accepted, the number of stages is the number of comma-separated
// elements and every stage is exactly (ParseDuration(trimmed first part), Atoi(trimmed second part)).
//
// NOT REGISTERED (tier off): the string queries of this harness are not decided by z3 5.1 / cvc5 in reasonable time
// (<= 7 characters: over the 90-minute thorough limit; <= 5 characters: the first obligation is still unknown after
// 7 minutes). Kept for the record; ParseStages is therefore only covered through the staged-trigger builder harness.
//
//verif:timeout 200
//verif:solver z3new
//verif:splitmax 3
//verif:tier off
func VerifC14_ParseStages() {
	s := zz.String("stages")
	zz.Assume(len(s) <= 7)
	zz.Assume(zz.InAlphabet(s, "019:,sm -"))
	st, err := ParseStages(s)
	zz.Cover("C14.stages.returned")
	zz.CoverIf("C14.stages.accepted_two", err == nil && len(st) == 2)
	zz.CoverIf("C14.stages.rejected", err != nil)
	if err != nil {
		zz.Assert("C14.stages.rejected_returns_no_stages", st == nil)
		return
	}
	parts := strings.Split(s, ",")
	zz.Assert("C14.stages.one_stage_per_element", len(st) == len(parts))
	if len(st) != len(parts) {
		return
	}
	for i, p := range parts {
		el := strings.Split(strings.TrimSpace(p), ":")
		if len(el) != 2 {
			zz.Assert("C14.stages.malformed_element_rejected", false)
			return
		}
		d, derr := time.ParseDuration(strings.TrimSpace(el[0]))
		t, terr := strconv.Atoi(strings.TrimSpace(el[1]))
		zz.Assert("C14.stages.element_means_what_it_spells", derr == nil && terr == nil && st[i].Duration == d && st[i].EndTarget == t)
	}
}

// VerifC14_StagedTrigger: CalculateStagedRate with an ARBITRARY tick frequency (any int64 duration), distribution
// none/regular/random/unknown and a fixed valid stages string: it is either rejected or yields a runnable trigger
// (positive tick interval, non-nil rate function).
func VerifC14_StagedTrigger() {
	freq := time.Duration(zz.Int64("frequency"))
	dist := []string{"none", "regular", "random", "bogus"}[zz.Choice("dist", 4)]
	rates, err := CalculateStagedRate(0, freq, "10s:5", dist, nil)
	zz.Cover("C14.staged.returned")
	zz.CoverIf("C14.staged.accepted", err == nil)
	if err != nil {
		return
	}
	zz.Assert("C14.staged.accepted_trigger_is_runnable", rates.IterationDuration > 0 && rates.Rate != nil)
}

// VerifC14_ParseStagesStructured: ParseStages on EVERY string that has up to 2 (thorough: 3) comma-separated elements
// of up to 3 colon-separated parts each, every part an arbitrary string (any characters except ',' and ':') of up to
// 6 characters — well-formed, malformed and near-miss inputs alike. The input is built as a concatenation of such
// parts, so strings.Split / strings.TrimSpace are computed on its structure (engine, "structured strings"), and the
// remaining string reasoning (white space, duration and integer grammars) is per part.
//   * never panics;
//   * rejected  <=> some element does not have exactly two parts, or its trimmed first part is not a duration, or its
//     trimmed second part is not an integer; a rejection returns no stages;
//   * accepted  =>  one stage per element, in order, each exactly (ParseDuration(trim(first)), Atoi(trim(second))),
//     start targets left for the calculator.
// Outside: more elements / parts / longer parts than stated.
//
//verif:timeout 120
//verif:solver z3new
func VerifC14_ParseStagesStructured() {
	maxEl := 2
	if zz.Thorough() {
		maxEl = 3
	}
	n := 1 + zz.Choice("elements", maxEl)
	var piece [3][3]string
	var m [3]int
	s := ""
	for i := 0; i < n; i++ {
		m[i] = 1 + zz.Choice("parts", 3, i)
		if i > 0 {
			s += ","
		}
		for j := 0; j < m[i]; j++ {
			piece[i][j] = zz.StringExcluding("part", ",:", i, j)
			zz.Assume(len(piece[i][j]) <= 6)
			if j > 0 {
				s += ":"
			}
			s += piece[i][j]
		}
	}
	st, err := ParseStages(s)
	zz.Cover("C14.stages2.returned")
	zz.CoverIf("C14.stages2.accepted_two_elements", err == nil && n == 2)
	zz.CoverIf("C14.stages2.rejected", err != nil)
	wellFormed := true
	var wantD [3]time.Duration
	var wantT [3]int
	for i := 0; i < n && wellFormed; i++ {
		if m[i] != 2 {
			wellFormed = false
			break
		}
		d, derr := time.ParseDuration(strings.TrimSpace(piece[i][0]))
		t, terr := strconv.Atoi(strings.TrimSpace(piece[i][1]))
		if derr != nil || terr != nil {
			wellFormed = false
			break
		}
		wantD[i], wantT[i] = d, t
	}
	zz.Assert("C14.stages2.rejected_iff_malformed", (err != nil) == !wellFormed)
	if err != nil {
		zz.Assert("C14.stages2.rejected_returns_no_stages", st == nil)
		return
	}
	zz.Assert("C14.stages2.one_stage_per_element", len(st) == n)
	if len(st) != n || !wellFormed {
		return
	}
	for i := 0; i < n; i++ {
		zz.Assert("C14.stages2.element_means_what_it_spells", st[i].Duration == wantD[i] && st[i].EndTarget == wantT[i] && st[i].StartTarget == 0)
	}
}

// VerifC14_StagedTriggerAnyStartTime: the staged trigger built by CalculateStagedRate from a valid stages string
// (the flag's default "0s:1, 10s:1", which begins with a zero-length stage, or one whose durations do not add up to
// a whole number of ticks), an ARBITRARY tick frequency, distribution none/regular/random, and either no start time
// or an ARBITRARY one (past or FUTURE): when accepted, the reported total duration is exactly the sum of the stage
// durations (C10), the tick interval is positive, and evaluating the rate at an ARBITRARY instant - also before a
// future start time - does not crash (C14: a usable rate function). Exact IEEE floats and 64-bit integers: a float outside the int64
// range converts to an unspecified integer (Go leaves it to the implementation), so a counterexample that depends
// on such a conversion is only reported when it reproduces natively.
//
//verif:unroll 12
//verif:timeout 300
func VerifC14_StagedTriggerAnyStartTime() {
	freq := time.Duration(zz.Int64("frequency"))
	dist := []string{"none", "regular", "random"}[zz.Choice("dist", 3)]
	which := zz.Choice("stages", 2)
	str := []string{"0s:1, 10s:1", "0s:0, 2500ms:100, 45s:7"}[which]
	sum := []time.Duration{10 * time.Second, 47500 * time.Millisecond}[which]
	var sp *time.Time
	if zz.Bool("hasStart") {
		s := zz.Int64("start")
		zz.Assume(s >= 0 && s < 1<<60)
		st := zz.Time(s)
		sp = &st
	}
	rates, err := CalculateStagedRate(0, freq, str, dist, sp)
	zz.Cover("C14.stagedstart.returned")
	zz.CoverIf("C14.stagedstart.accepted_with_start_time", err == nil && sp != nil)
	if err != nil {
		zz.Assert("C14.stagedstart.rejected_only_for_a_bad_frequency", freq <= 0)
		return
	}
	zz.Assert("C10.staged.reported_total_duration_is_the_sum_of_the_stage_durations", rates.Duration == sum)
	zz.Assert("C14.stagedstart.accepted_trigger_is_runnable", rates.IterationDuration > 0 && rates.Rate != nil)
	now := zz.Int64("now")
	zz.Assume(now >= 0 && now < 1<<60)
	r := rates.Rate(zz.Time(now)) // a panic here is a reachable-panic obligation (nopanic)
	zz.CoverIf("C14.stagedstart.evaluated_before_a_future_start", sp != nil && now < zz.Int64("start"))
	_ = r
}

// VerifC10_StagedTriggerDuration: the harness above, registered under C10 for "its reported total duration is the
// sum of the stage durations" at the level of the trigger (what the run compares with max-duration).
//
//verif:unroll 12
//verif:timeout 300
func VerifC10_StagedTriggerDuration() { VerifC14_StagedTriggerAnyStartTime() }
