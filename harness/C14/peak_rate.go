//verif:pkg internal/trigger/gaussian
package gaussian

import (
	"math"
	"time"

	zz "github.com/form3tech-oss/f1/v2/internal/zzverif"
)

// stand-in for rate.ParseRate: an ARBITRARY accepted rate, constrained only by what VerifC14_ParseRate establishes
// for every accepted string (count >= 0, unit > 0)
func c14AcceptedRate(string) (int, time.Duration, error) {
	n := zz.Int("peak.count")
	u := zz.Int64("peak.unit")
	zz.Assume(n >= 0)
	zz.Assume(n < 1<<31)
	zz.Assume(u > 0)
	zz.Assume(u < 1<<50)
	return n, time.Duration(u), nil
}

// VerifC14_PeakRatePerSecond: the gaussian trigger's --peak-rate conversion for ANY accepted rate (count, unit), in
// exact IEEE arithmetic: the transactions-per-second value is finite and non-negative for every unit down to 1 ns
// (no division by zero, no infinity that would make the rate function unusable), zero only for a zero count, and it
// means what the string spells: it is the correctly rounded quotient of the count and the unit in seconds.
//
//verif:replace $M/internal/trigger/rate.ParseRate c14AcceptedRate
//verif:noreplay rate.ParseRate is replaced by an arbitrary-accepted-rate stand-in
//verif:timeout 300
func VerifC14_PeakRatePerSecond() {
	tps, err := parseRateToTPS("spelled elsewhere")
	n := zz.Int("peak.count")
	u := time.Duration(zz.Int64("peak.unit"))
	zz.Cover("C14.peak.reached")
	zz.CoverIf("C14.peak.sub_millisecond_unit", u < time.Millisecond && n > 0)
	zz.Assert("C14.peak.accepted", err == nil)
	zz.Assert("C14.peak.tps_is_finite_and_not_negative", !math.IsInf(tps, 0) && !math.IsNaN(tps) && tps >= 0)
	zz.Assert("C14.peak.zero_only_for_zero_count", (tps == 0) == (n == 0))
	// "N/<unit> is N per that duration": the correctly rounded quotient of the count and the unit in seconds
	zz.Assert("C14.peak.means_count_per_unit", tps == float64(n)/u.Seconds())
}
