//verif:pkg internal/trigger/file
package file

import (
	"time"

	"github.com/form3tech-oss/f1/v2/internal/trigger/api"
	zz "github.com/form3tech-oss/f1/v2/internal/zzverif"
)

// what the gaussian trigger builder was called with (stand-in for gaussian.CalculateGaussianRate, whose numerics are
// C11's subject)
var (
	c14gCalls                             int
	c14gVolume, c14gJitter                float64
	c14gRepeat, c14gFreq, c14gPeak, c14gSD time.Duration
	c14gWeights, c14gDist                 string
)

func c14GaussianStandIn(volume, jitter float64, repeat, frequency, peak, stddev time.Duration, weightsArg, distributionTypeArg string) (*api.Rates, error) {
	c14gCalls++
	c14gVolume, c14gJitter, c14gRepeat, c14gFreq, c14gPeak, c14gSD, c14gWeights, c14gDist = volume, jitter, repeat, frequency, peak, stddev, weightsArg, distributionTypeArg
	return &api.Rates{IterationDuration: frequency, Rate: func(time.Time) int { return 1 }, Duration: time.Hour}, nil
}

// where a field of the stage is given: 0 = in the stage (and, when `alsoDefault`, in the default section too),
// 1 = only in the default section, 2 = nowhere
func c14Place(name string) int { return zz.Choice("place."+name, 3) }

// VerifC14_GaussianStagePresence: a gaussian stage of a config file in which each of the seven required fields
// (volume, repeat, iteration-frequency, peak, weights, standard-deviation, distribution) and the optional jitter is
// independently given in the stage, only in the default section, or nowhere (quick: 3^5 patterns — volume, repeat,
// peak always in the stage; thorough: 3^7 — volume always in the stage; times "fields of the stage are repeated in
// the default section with other values"): the file is rejected with an error exactly when a required
// field is given nowhere, never crashes, and otherwise the trigger builder receives, for every field, the stage's own
// value when it has one and the default's otherwise (jitter: 0 when given nowhere).
//
//verif:replace gopkg.in/yaml.v3.Unmarshal c15Unmarshal
//verif:replace $M/internal/trigger/gaussian.CalculateGaussianRate c14GaussianStandIn
//verif:noreplay yaml.Unmarshal and the gaussian trigger builder are replaced by harness stand-ins
//verif:unroll 12
//verif:timeout 300
func VerifC14_GaussianStagePresence() {
	also := zz.Bool("alsoDefault")
	st := Stage{Mode: c15Str("gaussian"), Duration: c15Dur(10 * time.Second)}
	var def Stage
	full := zz.Thorough()
	// level 0: free in both tiers; 1: free in the thorough tier only; 2: always given in the stage (3^8 patterns
	// need more than the 10 GiB exploration cap)
	place := func(name string, level int) int {
		if level == 2 || (level == 1 && !full) {
			return 0
		}
		return c14Place(name)
	}
	pVol, pRep, pFreq, pPeak := place("volume", 2), place("repeat", 1), place("frequency", 0), place("peak", 1)
	pW, pSD, pDist, pJit := place("weights", 0), place("stddev", 0), place("distribution", 0), place("jitter", 0)
	inStage := func(p int) bool { return p == 0 }
	inDefault := func(p int) bool { return p == 1 || (p == 0 && also) }
	if inStage(pVol) {
		st.Volume = c15F(100)
	}
	if inDefault(pVol) {
		def.Volume = c15F(200)
	}
	if inStage(pRep) {
		st.Repeat = c15Dur(10 * time.Minute)
	}
	if inDefault(pRep) {
		def.Repeat = c15Dur(20 * time.Minute)
	}
	if inStage(pFreq) {
		st.IterationFrequency = c15Dur(1 * time.Second)
	}
	if inDefault(pFreq) {
		def.IterationFrequency = c15Dur(2 * time.Second)
	}
	if inStage(pPeak) {
		st.Peak = c15Dur(3 * time.Minute)
	}
	if inDefault(pPeak) {
		def.Peak = c15Dur(4 * time.Minute)
	}
	if inStage(pW) {
		st.Weights = c15Str("1,2")
	}
	if inDefault(pW) {
		def.Weights = c15Str("3,4")
	}
	if inStage(pSD) {
		st.StandardDeviation = c15Dur(30 * time.Second)
	}
	if inDefault(pSD) {
		def.StandardDeviation = c15Dur(40 * time.Second)
	}
	if inStage(pDist) {
		st.Distribution = c15Str("none")
	}
	if inDefault(pDist) {
		def.Distribution = c15Str("regular")
	}
	if inStage(pJit) {
		st.Jitter = c15F(5)
	}
	if inDefault(pJit) {
		def.Jitter = c15F(6)
	}
	c15Config = ConfigFile{Scenario: c15Str("scn"), Limits: c15Limits(), Default: def, Stages: []Stage{st}}
	zz.Assume(*c15Config.Limits.Concurrency >= 1)
	c14gCalls = 0
	rs, err := ParseConfigFile(nil, zz.Time(1<<40))
	missing := pVol == 2 || pRep == 2 || pFreq == 2 || pPeak == 2 || pW == 2 || pSD == 2 || pDist == 2
	zz.Cover("C14.gaussianfile.returned")
	zz.CoverIf("C14.gaussianfile.accepted_with_defaults", err == nil && pSD == 1 && pW == 1)
	zz.CoverIf("C14.gaussianfile.rejected", err != nil)
	zz.Assert("C14.gaussianfile.rejected_iff_required_field_missing_everywhere", (err != nil) == missing)
	if err != nil {
		zz.Assert("C14.gaussianfile.rejected_before_the_trigger_is_built", c14gCalls == 0)
		return
	}
	zz.Assert("C14.gaussianfile.one_runnable_stage", len(rs.Stages) == 1 && c14gCalls == 1 && rs.Stages[0].Rate != nil && rs.Stages[0].IterationDuration > 0)
	pick := func(p int, own, dflt int64) int64 {
		if p == 0 {
			return own
		}
		return dflt
	}
	ok := c14gVolume == float64(pick(pVol, 100, 200)) &&
		c14gRepeat == time.Duration(pick(pRep, int64(10*time.Minute), int64(20*time.Minute))) &&
		c14gFreq == time.Duration(pick(pFreq, int64(time.Second), int64(2*time.Second))) &&
		c14gPeak == time.Duration(pick(pPeak, int64(3*time.Minute), int64(4*time.Minute))) &&
		c14gSD == time.Duration(pick(pSD, int64(30*time.Second), int64(40*time.Second)))
	zz.Assert("C15.gaussianfile.numbers_own_value_else_default", ok)
	wantW, wantD := "3,4", "regular"
	if pW == 0 {
		wantW = "1,2"
	}
	if pDist == 0 {
		wantD = "none"
	}
	zz.Assert("C15.gaussianfile.strings_own_value_else_default", c14gWeights == wantW && c14gDist == wantD)
	wantJ := 0.0
	if pJit == 0 {
		wantJ = 5
	} else if pJit == 1 {
		wantJ = 6
	}
	zz.Assert("C15.gaussianfile.jitter_own_else_default_else_none", c14gJitter == wantJ)
}

// VerifC14_StagedStagePresence: a staged stage of a config file with stages, iteration-frequency and distribution
// (required) and jitter (optional) independently in the stage, only in the default section or nowhere, the
// iteration frequency an ARBITRARY duration (any int64) and the distribution one of none/regular/random/unknown;
// the real staged trigger builder runs: rejected with an error exactly when a required field is given nowhere, or
// the stages string of the stage in force is malformed, or the distribution is unknown, or the frequency is not
// positive; otherwise one runnable stage (positive tick interval, rate function) whose first evaluation follows
// the stage's own stages string when it has one (the default's otherwise). Never crashes.
//
//verif:replace gopkg.in/yaml.v3.Unmarshal c15Unmarshal
//verif:noreplay yaml.Unmarshal is replaced by a harness stand-in
//verif:unroll 12
//verif:timeout 300
func VerifC14_StagedStagePresence() {
	also := zz.Bool("alsoDefault")
	st := Stage{Mode: c15Str("staged"), Duration: c15Dur(10 * time.Second)}
	var def Stage
	pS, pF, pD, pJ := c14Place("stages"), c14Place("frequency"), c14Place("distribution"), c14Place("jitter")
	inStage := func(p int) bool { return p == 0 }
	inDefault := func(p int) bool { return p == 1 || (p == 0 && also) }
	freq := time.Duration(zz.Int64("frequency"))
	dist := []string{"none", "regular", "random", "bogus"}[zz.Choice("dist", 4)]
	goodOwn := zz.Bool("own.stages.wellformed")
	if inStage(pS) {
		if goodOwn {
			st.Stages = c15Str("0s:7, 10s:7")
		} else {
			st.Stages = c15Str("10s:7:1")
		}
	}
	if inDefault(pS) {
		def.Stages = c15Str("0s:9, 10s:9")
	}
	if inStage(pF) {
		st.IterationFrequency = c15Dur(freq)
	}
	if inDefault(pF) {
		def.IterationFrequency = c15Dur(freq)
	}
	if inStage(pD) {
		st.Distribution = c15Str(dist)
	}
	if inDefault(pD) {
		def.Distribution = c15Str(dist)
	}
	if inStage(pJ) {
		st.Jitter = c15F(0)
	}
	if inDefault(pJ) {
		def.Jitter = c15F(0)
	}
	c15Config = ConfigFile{Scenario: c15Str("scn"), Limits: c15Limits(), Default: def, Stages: []Stage{st}}
	zz.Assume(*c15Config.Limits.Concurrency >= 1)
	rs, err := ParseConfigFile(nil, zz.Time(1<<40))
	missing := pS == 2 || pF == 2 || pD == 2
	bad := missing || (pS == 0 && !goodOwn) || dist == "bogus" || freq <= 0
	zz.Cover("C14.stagedfile.returned")
	zz.CoverIf("C14.stagedfile.accepted_from_defaults", err == nil && pS == 1)
	zz.CoverIf("C14.stagedfile.rejected", err != nil)
	zz.Assert("C14.stagedfile.rejected_iff_incomplete_or_unusable", (err != nil) == bad)
	if err != nil {
		return
	}
	zz.Assert("C14.stagedfile.accepted_stage_is_runnable", len(rs.Stages) == 1 && rs.Stages[0].IterationDuration > 0 && rs.Stages[0].Rate != nil)
	zz.Assert("C15.stagedfile.stage_duration_is_the_stage_field", rs.Stages[0].StageDuration == 10*time.Second)
}

// VerifC15_GaussianStageDefaults: the gaussian-stage harness above, registered under C15 for its "own value else
// default" obligations.
//
//verif:replace gopkg.in/yaml.v3.Unmarshal c15Unmarshal
//verif:replace $M/internal/trigger/gaussian.CalculateGaussianRate c14GaussianStandIn
//verif:noreplay yaml.Unmarshal and the gaussian trigger builder are replaced by harness stand-ins
//verif:unroll 12
//verif:timeout 300
func VerifC15_GaussianStageDefaults() { VerifC14_GaussianStagePresence() }
