//verif:pkg internal/trigger/rate
package rate

import (
	"strings"
	"time"

	zz "github.com/form3tech-oss/f1/v2/internal/zzverif"
)

// VerifC14_ParseRate: ParseRate on an ARBITRARY string of up to 8 characters over the alphabet of the rate grammar
// and its near-misses (digits, '/', '.', '+', '-', unit letters, space). strconv.Atoi is exact (SMT str.to_int),
// time.ParseDuration is a value function constrained in sign and zero-ness with the documented acceptance grammar:
//   - never panics (malformed input is rejected with an error)
//   - accepted input yields a usable trigger: rate >= 0 and a positive tick interval
//   - accepted strings mean what they spell: "N/<d>" is N per ParseDuration(d) whenever d alone is a valid
//     duration; a bare unit means one of it; a bare N means per second
//
//verif:timeout 120
//verif:solver z3new
func VerifC14_ParseRate() {
	s := zz.String("rateArg")
	zz.Assume(len(s) <= 8)
	zz.Assume(zz.InAlphabet(s, "0123456789/.+-numsh "))
	r, unit, err := ParseRate(s)
	zz.Cover("C14.rate.returned")
	zz.CoverIf("C14.rate.accepted_with_unit", err == nil && strings.Contains(s, "/"))
	zz.CoverIf("C14.rate.rejected", err != nil)
	if err != nil {
		return
	}
	zz.Assert("C14.rate.accepted_rate_not_negative", r >= 0)
	zz.Assert("C14.rate.accepted_interval_positive", unit > 0)
	if !strings.Contains(s, "/") {
		zz.Assert("C14.rate.bare_number_is_per_second", unit == time.Second)
		return
	}
	i := strings.Index(s, "/")
	d := s[i+1:]
	if dur, derr := time.ParseDuration(d); derr == nil {
		zz.Assert("C14.rate.unit_is_the_duration_it_spells", unit == dur)
	} else if one, oerr := time.ParseDuration("1" + d); oerr == nil {
		zz.Assert("C14.rate.bare_unit_means_one_of_it", unit == one)
	}
}
