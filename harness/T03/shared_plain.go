//verif:pkg internal/workers
package workers

import (
	"sync"
	"sync/atomic"

	zz "github.com/form3tech-oss/f1/v2/internal/zzverif"
)

type t03Box struct {
	ch    chan int
	n     int
	ready atomic.Bool
}

// engine self-test: plain memory written AFTER a spawn and published through an atomic flag. The reader must be able
// to see the channel and the number the spawner stored after starting it (expected: ok, and the cover point
// "T03.published_value_seen" reachable - without the shared-cell model the reader would block on a nil channel).
//
//verif:conc
func VerifT03_PublishAfterSpawn() {
	b := &t03Box{}
	var got atomic.Int64
	var wg sync.WaitGroup
	wg.Add(1)
	go func() {
		defer wg.Done()
		if b.ready.Load() {
			v := <-b.ch
			got.Store(int64(v + b.n))
		}
	}()
	b.n = 5
	b.ch = make(chan int, 1)
	b.ch <- 2
	b.ready.Store(true)
	wg.Wait()
	zz.Cover("T03.done")
	zz.CoverIf("T03.published_value_seen", got.Load() == 7)
	zz.Assert("T03.nothing_or_published_value", got.Load() == 0 || got.Load() == 7)
}

// engine self-test: an unsynchronised read of a plain field that the spawner writes after the spawn: the reader may
// see the old or the new value (expected: VIOLATION of T03.racy.sees_new_value, with T03.racy.old reachable).
//
//verif:conc
func VerifT03_RacyRead() {
	b := &t03Box{}
	var got atomic.Int64
	var wg sync.WaitGroup
	wg.Add(1)
	go func() {
		defer wg.Done()
		got.Store(int64(b.n))
	}()
	b.n = 5
	wg.Wait()
	zz.Cover("T03.racy.done")
	zz.CoverIf("T03.racy.old", got.Load() == 0)
	zz.Assert("T03.racy.sees_new_value", got.Load() == 5)
}
