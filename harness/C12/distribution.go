//verif:pkg internal/trigger/api
package api

import (
	"time"

	zz "github.com/form3tech-oss/f1/v2/internal/zzverif"
)

const c12MaxRate = 1 << 40

// VerifC12_RandomCycles: random distribution over two consecutive fully unrolled cycles of N sub-ticks
// (N per path), with a time-varying underlying rate and an ARBITRARY random source (any non-negative int, in or
// beyond [0,n)): every value is non-negative, each cycle sums exactly to the value the underlying rate produced
// for it, and the underlying rate is evaluated exactly once per cycle, at its first sub-tick.
//
//verif:unroll 30
func VerifC12_RandomCycles() {
	maxN := 4
	if zz.Thorough() {
		maxN = 6
	}
	n := zz.Choice("N", maxN-1) + 2
	rateCalls, curCycle, curTick := 0, 0, 0
	rateFn := func(time.Time) int {
		r := zz.Int("rate", curCycle)
		zz.Assume(r >= 0)
		zz.Assume(r < c12MaxRate)
		rateCalls++
		return r
	}
	randFn := func(limit int) int {
		v := zz.Int("rand", curTick)
		zz.Assume(v >= 0)
		return v
	}
	interval := time.Duration(n)*100*time.Millisecond + time.Duration(zz.Choice("extra_ms", 2))*99*time.Millisecond
	d, fn, err := NewDistribution(RandomDistribution, interval, rateFn, randFn)
	zz.Assert("C12.random.constructed", err == nil && d == 100*time.Millisecond)
	now := zz.Time(0)
	for cycle := 0; cycle < 2; cycle++ {
		sum := 0
		for i := 0; i < n; i++ {
			curCycle, curTick = cycle, cycle*n+i
			v := fn(now)
			zz.Assert("C12.random.nonneg", v >= 0)
			zz.Assert("C12.random.rate_evaluated_once_per_cycle", rateCalls == cycle+1)
			sum += v
		}
		zz.Assert("C12.random.cycle_sum_exact", sum == zz.Int("rate", cycle))
	}
	zz.Cover("C12.random.done")
}

// VerifC12_RandomStep: one sub-tick from an ARBITRARY point of a cycle of ARBITRARY length N (2 <= N <= 2^20;
// the closure's own counters are set to symbolic values under the invariant 0 <= remaining rate, 0 <= remaining
// steps <= N): the value is between 0 and the remaining rate, the remainder decreases by exactly that value, the
// last sub-tick emits the whole remainder, and the underlying rate is read iff a new cycle starts. By induction
// every cycle of any length sums to its rate.
//
//verif:noreplay closure state is set through engine-only intrinsics
func VerifC12_RandomStep() {
	rateCalls := 0
	rateFn := func(time.Time) int {
		r := zz.Int("rate")
		zz.Assume(r >= 0)
		zz.Assume(r < c12MaxRate)
		rateCalls++
		return r
	}
	randFn := func(limit int) int {
		v := zz.Int("rand")
		zz.Assume(v >= 0)
		return v
	}
	_, fn, _ := NewDistribution(RandomDistribution, time.Second, rateFn, randFn)
	n, steps, rem := zz.Int("N"), zz.Int("steps"), zz.Int("rem")
	zz.Assume(n >= 2)
	zz.Assume(n <= 1<<20)
	zz.Assume(steps >= 0)
	zz.Assume(steps <= n)
	zz.Assume(rem >= 0)
	zz.Assume(rem < c12MaxRate)
	zz.SetClosureInt(fn, "tickSteps", n)
	zz.SetClosureInt(fn, "remainingSteps", steps)
	zz.SetClosureInt(fn, "remainingRate", rem)
	out := fn(zz.Time(0))
	steps2, rem2 := zz.GetClosureInt(fn, "remainingSteps"), zz.GetClosureInt(fn, "remainingRate")
	// state the step started from (after a possible cycle start)
	s0, r0 := steps, rem
	if steps == 0 {
		s0, r0 = n, zz.Int("rate")
	}
	zz.Cover("C12.randomstep.reached")
	zz.CoverIf("C12.randomstep.newcycle", steps == 0)
	zz.CoverIf("C12.randomstep.last", s0 == 1)
	zz.Assert("C12.randomstep.rate_read_iff_cycle_start", (rateCalls == 1) == (steps == 0) && rateCalls <= 1)
	zz.Assert("C12.randomstep.range", out >= 0 && out <= r0)
	zz.Assert("C12.randomstep.remainder", rem2 == r0-out && rem2 >= 0)
	zz.Assert("C12.randomstep.steps", steps2 == s0-1)
	zz.Assert("C12.randomstep.last_emits_all", s0 != 1 || (out == r0 && rem2 == 0))
}

// VerifC12_PassThrough: intervals of 100 ms or less, and distribution "none", return the very same rate
// function and interval; an unknown distribution is an error; the sub-tick is 100 ms and N = floor(interval/100ms).
//
//verif:noreplay compares function identity through engine-only closure access
func VerifC12_PassThrough() {
	calls := 0
	rateFn := func(time.Time) int { calls++; return zz.Int("rate") }
	iv := time.Duration(zz.Int64("interval"))
	zz.Assume(iv > 0)
	zz.Assume(iv < 1<<50)
	kind := zz.Choice("kind", 4)
	dt := []DistributionType{NoneDistribution, RegularDistribution, RandomDistribution, "bogus"}[kind]
	d, fn, err := NewDistribution(dt, iv, rateFn, nil)
	zz.Cover("C12.pass.reached")
	if kind == 3 {
		zz.Assert("C12.pass.unknown_is_error", err != nil)
		return
	}
	zz.Assert("C12.pass.known_no_error", err == nil)
	if kind == 0 || iv <= 100*time.Millisecond {
		zz.CoverIf("C12.pass.short_interval", kind != 0)
		zz.Assert("C12.pass.interval_unchanged", d == iv)
		v := fn(zz.Time(0))
		zz.Assert("C12.pass.same_function", calls == 1 && v == zz.Int("rate"))
		return
	}
	zz.Assert("C12.pass.subtick_100ms", d == 100*time.Millisecond)
	n := zz.GetClosureInt(fn, "tickSteps")
	ms := int(int64(iv) / 1_000_000)
	zz.Assert("C12.pass.N_is_floor", n == ms/100 && n >= 1)
}

func c12RegularCycle(n, maxRate int) { c12RegularCycleRange(n, 0, maxRate) }

func c12RegularCycleRange(n, minRate, maxRate int) {
	rateCalls := 0
	rateFn := func(time.Time) int {
		r := zz.Int("rate")
		zz.Assume(r >= minRate)
		zz.Assume(r <= maxRate)
		rateCalls++
		return r
	}
	d, fn, err := NewDistribution(RegularDistribution, time.Duration(n)*100*time.Millisecond, rateFn, nil)
	zz.Assert("C12.regular.constructed", err == nil && d == 100*time.Millisecond)
	// arbitrary leftovers of a previous cycle: the next cycle must not depend on them
	zz.SetClosureFloat(fn, "accRate", zz.Float64("leftover"))
	zz.SetClosureInt(fn, "rate", zz.Int("oldrate"))
	sum, lo, hi := 0, 0, 0
	for i := 0; i < n; i++ {
		v := fn(zz.Time(0))
		zz.Assert("C12.regular.nonneg", v >= 0)
		sum += v
		if i == 0 || v < lo {
			lo = v
		}
		if i == 0 || v > hi {
			hi = v
		}
	}
	zz.Cover("C12.regular.done")
	zz.Assert("C12.regular.rate_evaluated_once", rateCalls == 1)
	zz.Assert("C12.regular.cycle_sum_exact", sum == zz.Int("rate"))
	zz.Assert("C12.regular.even", hi-lo <= 1)
	zz.Assert("C12.regular.cycle_complete", zz.GetClosureInt(fn, "remainingSteps") == 0)
}

// VerifC12_Regular2 .. : regular distribution in EXACT IEEE-754 arithmetic (the accumulate / ceil-at-1e-7 /
// truncate kernel is bit-precise): one full cycle of N sub-ticks starting from arbitrary leftovers of the
// previous cycle, every rate in [0, R]: values non-negative, sum exactly the rate, values differ by at most 1,
// underlying rate read once. N and R are the stated bounds (the solver does not finish far beyond them).
//
//verif:solver cvc5
//verif:timeout 240
//verif:unroll 40
//verif:noreplay closure state is set through engine-only intrinsics
func VerifC12_Regular2() { c12RegularCycle(2, 127) }

// VerifC12_Regular3High: the same kernel for a window of HIGH rates (per-sub-tick share in the thousands, where scaling
// the accumulator before the ceiling starts to lose bits; N = 3 so that the share is not a dyadic fraction): rates
// 12270..12310.
//
//verif:solver cvc5
//verif:timeout 240
//verif:unroll 40
//verif:noreplay closure state is set through engine-only intrinsics
func VerifC12_Regular3High() { c12RegularCycleRange(3, 12270, 12310) }

//verif:solver cvc5
//verif:timeout 240
//verif:unroll 40
//verif:noreplay closure state is set through engine-only intrinsics
func VerifC12_Regular3() { c12RegularCycle(3, 127) }
