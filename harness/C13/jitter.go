//verif:pkg internal/trigger/api
package api

import (
	"time"

	zz "github.com/form3tech-oss/f1/v2/internal/zzverif"
)

func c13Abs(x float64) float64 {
	if x < 0 {
		return -x
	}
	return x
}

// VerifC13_JitterStep: one tick of the jittered rate from an ARBITRARY carried balance (the closure's own
// variable is set symbolically), any rate in [0, 2^20], any jitter in (0, 100), any outcome of the random
// variation (cos in [-1,1]). Floats are modelled as reals with the IEEE-754 rounding error of every operation
// (relative 2^-53), integers as mathematical integers (no overflow possible within these bounds).
//   - the output is a non-negative integer
//   - carry: output + new balance = rate + old balance (up to rounding): nothing is lost
//   - each value is within jitter percent (plus 0.5 rounding) of rate + carried balance; 0 if that is negative
//   - the carried balance contracts: |balance'| <= max(|balance|, j*(rate+|balance|) + 0.5) (+ rounding)
//
//verif:fp relaxed
//verif:solver z3new
//verif:ints math
//verif:noreplay closure state is set through engine-only intrinsics; cos/rand are nondeterministic stubs
func VerifC13_JitterStep() {
	rate := zz.Int("rate")
	zz.Assume(rate >= 0)
	zz.Assume(rate <= 1<<20)
	j := zz.Float64("jitter")
	zz.Assume(j > 0)
	zz.Assume(j < 100)
	bal := zz.Float64("balance")
	zz.Assume(bal > -(1 << 22))
	zz.Assume(bal < 1<<22)
	calls := 0
	fn := WithJitter(func(time.Time) int { calls++; return rate }, j)
	zz.SetClosureFloat(fn, "balance", bal)
	out := fn(zz.Time(0))
	bal2 := zz.GetClosureFloat(fn, "balance")
	req := float64(rate) + bal
	o := float64(out)
	jf := j / 100
	const eps = 1e-6
	zz.Cover("C13.step.reached")
	zz.CoverIf("C13.step.clamped", req < 0)
	zz.CoverIf("C13.step.varied", o > req+1)
	zz.Assert("C13.step.rate_read_once", calls == 1)
	zz.Assert("C13.step.nonneg", out >= 0)
	zz.Assert("C13.step.carry", c13Abs((o+bal2)-req) <= eps)
	zz.Assert("C13.step.within_jitter", req < 0 || c13Abs(o-req) <= jf*req+0.5+eps)
	zz.Assert("C13.step.clamp_zero", req >= -eps || out == 0)
	bound := jf*(float64(rate)+c13Abs(bal)) + 0.5
	if c13Abs(bal) > bound {
		bound = c13Abs(bal)
	}
	zz.Assert("C13.step.balance_contracts", c13Abs(bal2) <= bound+eps)
}

// VerifC13_ZeroJitterIdentity: zero jitter returns the rate function itself (no wrapper, no state).
func VerifC13_ZeroJitterIdentity() {
	calls := 0
	rate := zz.Int("rate")
	f := WithJitter(func(time.Time) int { calls++; return rate }, 0)
	v := f(zz.Time(0))
	w := f(zz.Time(1))
	zz.Cover("C13.zero.reached")
	zz.Assert("C13.zero.identity", v == rate && w == rate && calls == 2)
}
