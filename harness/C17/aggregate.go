//verif:pkg internal/progress
package progress

import (
	zz "github.com/form3tech-oss/f1/v2/internal/zzverif"
)

// ghost aggregate: the mathematically intended statistics of a multiset of positive durations
type c17Agg struct {
	sum, count, min, max int64 // count == 0 => min = max = sum = 0
}

func (a c17Agg) add(d int64) c17Agg {
	r := c17Agg{sum: a.sum + d, count: a.count + 1, min: a.min, max: a.max}
	if a.count == 0 || d < a.min {
		r.min = d
	}
	if a.count == 0 || d > a.max {
		r.max = d
	}
	return r
}

func (a c17Agg) merge(b c17Agg) c17Agg {
	if b.count == 0 {
		return a
	}
	if a.count == 0 {
		return b
	}
	r := c17Agg{sum: a.sum + b.sum, count: a.count + b.count, min: a.min, max: a.max}
	if b.min < r.min {
		r.min = b.min
	}
	if b.max > r.max {
		r.max = b.max
	}
	return r
}

// arbitrary aggregate satisfying the representation invariant
func c17Arbitrary(name string, i int) c17Agg {
	a := c17Agg{sum: zz.Int64(name+".sum", i), count: zz.Int64(name+".count", i), min: zz.Int64(name+".min", i), max: zz.Int64(name+".max", i)}
	zz.Assume(a.count >= 0)
	zz.Assume(a.count < 1<<40)
	zz.Assume(a.sum >= 0)
	zz.Assume(a.sum < 1<<61)
	zz.Assume(zz.Implies(a.count == 0, a.sum == 0 && a.min == 0 && a.max == 0))
	zz.Assume(zz.Implies(a.count > 0, 0 < a.min && a.min <= a.max && a.max <= a.sum))
	return a
}

func c17Load(d *IterationDurations, a c17Agg) {
	d.sum.Store(a.sum)
	d.count.Store(a.count)
	d.min.Store(a.min)
	d.max.Store(a.max)
}

func c17Same(d *IterationDurations, a c17Agg) bool {
	return d.sum.Load() == a.sum && d.count.Load() == a.count && d.min.Load() == a.min && d.max.Load() == a.max
}

func c17Snap(s IterationDurationsSnapshot, a c17Agg) bool {
	mean := int64(0)
	if a.count > 0 {
		mean = a.sum / a.count
	}
	return int64(s.Average) == mean && s.Count == uint64(a.count) && int64(s.Min) == a.min && int64(s.Max) == a.max
}

// VerifC17_AddStep: from ANY accumulator state satisfying the invariant, recording a positive duration
// yields exactly the ghost aggregate (0 is the "no minimum yet" sentinel).
func VerifC17_AddStep() {
	a := c17Arbitrary("a", 0)
	x := zz.Int64("x")
	zz.Assume(x > 0)
	zz.Assume(x < 1<<40)
	var d IterationDurations
	c17Load(&d, a)
	d.Add(x)
	zz.Cover("C17.add.reached")
	zz.CoverIf("C17.add.first", a.count == 0)
	zz.CoverIf("C17.add.newmin", a.count > 0 && x < a.min)
	zz.Assert("C17.add.exact", c17Same(&d, a.add(x)))
}

// VerifC17_CollectStep: from ANY (running, lifetime) pair, CollectLifetime returns the period figures of exactly
// the running records, lifetime figures covering both, clears the running accumulators, and never lowers the
// lifetime count. Integer division is an uninterpreted function here (the mean is checked to be "sum / count" of the
// right operands; the arithmetic of the quotient itself is exercised in VerifC17_History).
//
//verif:div uf
func VerifC17_CollectStep() {
	run, life := c17Arbitrary("run", 0), c17Arbitrary("life", 0)
	var d DurationStats
	c17Load(&d.running, run)
	c17Load(&d.lifetime, life)
	period, lifetime := d.CollectLifetime()
	want := life.merge(run)
	zz.Cover("C17.collect.reached")
	zz.CoverIf("C17.collect.both_nonempty", run.count > 0 && life.count > 0)
	zz.Assert("C17.collect.period_exact", c17Snap(period, run))
	zz.Assert("C17.collect.lifetime_exact", c17Snap(lifetime, want))
	zz.Assert("C17.collect.lifetime_state", c17Same(&d.lifetime, want))
	zz.Assert("C17.collect.running_cleared", c17Same(&d.running, c17Agg{}))
	zz.Assert("C17.collect.count_monotone", lifetime.Count >= uint64(life.count))
}

// VerifC17_History: every sequence of 3 (quick) / 4 (thorough) operations (record success / record failure / dropped / snapshot),
// chosen symbolically, followed by the final totals: each snapshot's lifetime figures cover all records so far,
// its period figures exactly those since the previous snapshot. The operation codes are symbolic values (no
// enumeration of sequences): the engine merges the four branches after every step and the solver decides each
// obligation for all 4^n sequences and all durations at once. Division is uninterpreted here (mean = sum/count
// of the right operands); its arithmetic is covered by VerifC17_MeanBounds.
//
//verif:div uf
//verif:unroll 12
func VerifC17_History() {
	var s Stats
	var lifeS, lifeF, per c17Agg
	dropped := uint64(0)
	n := 3
	if zz.Thorough() {
		n = 4
	}
	for i := 0; i < n; i++ {
		op := zz.Int("op", i)
		zz.Assume(op >= 0)
		zz.Assume(op <= 3)
		x := zz.Int64("x", i)
		zz.Assume(x > 0)
		zz.Assume(x < 1<<40)
		switch op {
		case 0:
			s.Record("success", x)
			lifeS = lifeS.add(x)
			per = per.add(x)
		case 1:
			s.Record("fail", x)
			lifeF = lifeF.add(x)
		case 2:
			s.Record("dropped", 0)
			dropped++
		default:
			snap := s.Snapshot(1000)
			zz.Assert("C17.hist.snapshot_period", c17Snap(snap.SuccessfulIterationDurationsForPeriod, per))
			zz.Assert("C17.hist.snapshot_lifetime_s", c17Snap(snap.SuccessfulIterationDurations, lifeS))
			zz.Assert("C17.hist.snapshot_lifetime_f", c17Snap(snap.FailedIterationDurations, lifeF))
			zz.Assert("C17.hist.snapshot_dropped", snap.DroppedIterationCount == dropped)
			zz.CoverIf("C17.hist.snapshot_after_records", per.count > 0)
			per = c17Agg{}
		}
	}
	tot := s.Total()
	zz.Cover("C17.hist.done")
	zz.Assert("C17.hist.total_s", c17Snap(tot.SuccessfulIterationDurations, lifeS))
	zz.Assert("C17.hist.total_f", c17Snap(tot.FailedIterationDurations, lifeF))
	zz.Assert("C17.hist.total_dropped", tot.DroppedIterationCount == dropped)
}

// VerifC17_MeanBounds: for k = 1..4 recorded durations (k chosen per path so the divisor is a constant), with a
// snapshot placed after any prefix, the final lifetime figures satisfy min <= mean <= max, mean = floor(sum/k),
// and min/max are attained.
func VerifC17_MeanBounds() {
	k := zz.Choice("k", 4) + 1
	cut := zz.Choice("cut", k+1) // snapshot after record number cut (cut == k: no snapshot)
	var s Stats
	var g c17Agg
	for i := 0; i < k; i++ {
		x := zz.Int64("x", i)
		zz.Assume(x > 0)
		zz.Assume(x < 1<<40)
		s.Record("success", x)
		g = g.add(x)
		if cut == i {
			s.Snapshot(1)
		}
	}
	ss := s.Total().SuccessfulIterationDurations
	zz.Cover("C17.mean.done")
	zz.Assert("C17.mean.count", ss.Count == uint64(k))
	zz.Assert("C17.mean.min_le_mean_le_max", ss.Min <= ss.Average && ss.Average <= ss.Max)
	zz.Assert("C17.mean.exact", c17Snap(ss, g))
	zz.Assert("C17.mean.positive", ss.Min > 0)
}
