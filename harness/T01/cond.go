//verif:pkg internal/workers
package workers

import (
	"sync"
	"sync/atomic"

	zz "github.com/form3tech-oss/f1/v2/internal/zzverif"
)

// engine self-test: a waiter parks on a condition variable until a flag is set under the lock
//
//verif:conc
//verif:unroll 3
func VerifT01_Cond() {
	c := sync.NewCond(&sync.Mutex{})
	var flag atomic.Int64
	var waited atomic.Int64
	var wg sync.WaitGroup
	wg.Add(1)
	go func() {
		c.L.Lock()
		for flag.Load() == 0 {
			waited.Store(1)
			c.Wait()
		}
		c.L.Unlock()
		wg.Done()
	}()
	c.L.Lock()
	flag.Store(1)
	c.Broadcast()
	c.L.Unlock()
	wg.Wait()
	zz.Cover("T01.done")
	zz.CoverIf("T01.waited", waited.Load() == 1)
	zz.Assert("T01.flag", flag.Load() == 1)
}

// engine self-test: correct cond-var protocol has no deadlock
//
//verif:conc
//verif:unroll 3
//verif:deadlock 1
func VerifT01_NoDeadlock() { VerifT01_Cond() }

// engine self-test: lost wake-up - the predicate is checked OUTSIDE the lock, the broadcast can slip in between the
// check and the Wait: the deadlock query must find it (expected: VIOLATION)
//
//verif:conc
//verif:unroll 3
//verif:deadlock 1
func VerifT01_LostWakeup() {
	c := sync.NewCond(&sync.Mutex{})
	var flag atomic.Int64
	var wg sync.WaitGroup
	wg.Add(1)
	go func() {
		if flag.Load() == 0 {
			c.L.Lock()
			c.Wait()
			c.L.Unlock()
		}
		wg.Done()
	}()
	c.L.Lock()
	flag.Store(1)
	c.Broadcast()
	c.L.Unlock()
	wg.Wait()
	zz.Cover("T01.lw.done")
}
