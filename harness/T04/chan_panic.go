//verif:pkg internal/workers
package workers

import (
	"sync"

	zz "github.com/form3tech-oss/f1/v2/internal/zzverif"
)

// engine self-test: a buffered channel of capacity 1 and a consumer that takes both values (expected: ok, no
// deadlock; the second send may have to wait for the first receive)
//
//verif:conc
//verif:deadlock 1
func VerifT04_BufferedChannelDrained() {
	ch := make(chan int, 1)
	var wg sync.WaitGroup
	wg.Add(1)
	sum := 0
	go func() {
		defer wg.Done()
		a := <-ch
		b := <-ch
		ch2 := a + b
		_ = ch2
	}()
	ch <- 1
	ch <- 2
	wg.Wait()
	zz.Cover("T04.drained.done")
	zz.Assert("T04.drained.sum", sum == 0)
}

// engine self-test: capacity 1, two sends, nobody receives (expected: VIOLATION of the deadlock query - the second
// send blocks forever; without a capacity model it would sail through)
//
//verif:conc
//verif:deadlock 1
func VerifT04_BufferedSendBlocks() {
	ch := make(chan int, 1)
	ch <- 1
	ch <- 2
	zz.Cover("T04.blocks.unreachable_end")
}

// engine self-test: a goroutine that dereferences nil (expected: VIOLATION nopanic.thread_* - a panic escaping a
// goroutine must be reported, not silently excluded from the executions considered)
//
//verif:conc
func VerifT04_GoroutinePanic() {
	var wg sync.WaitGroup
	wg.Add(1)
	var p *int
	go func() {
		defer wg.Done()
		if zz.Bool("deref") {
			_ = *p
		}
	}()
	wg.Wait()
	zz.Cover("T04.panic.done")
}
