//verif:pkg internal/metrics
package metrics

import (
	"github.com/prometheus/client_golang/prometheus"

	zz "github.com/form3tech-oss/f1/v2/internal/zzverif"
)

// VerifC16_Labels: a metrics instance built from a static-label map of 0..3 keys with ARBITRARY values, for every
// iteration order of the map (each `range` over the map is a symbolic permutation): the label NAMES registered for
// both vectors and the label VALUES attached to every observation are index-aligned (value_i = map[name_i]), the
// fixed labels come first, an iteration observation carries (scenario, "iteration", result), a setup observation
// (scenario, result); with iteration metrics disabled no iteration sample is recorded; Reset clears both vectors.
// Prometheus itself is an abstract multiset keyed by the label-value vector.
//
//verif:ghostlog 1
//verif:noreplay Prometheus is replaced by the engine's abstract multiset
func VerifC16_Labels() {
	n := zz.Choice("nlabels", 4)
	names := []string{"id", "ID", "env"} // two keys differ only by case: orderings that ignore case cannot tell them apart
	m := map[string]string{}
	for i := 0; i < n; i++ {
		m[names[i]] = zz.String("val", i)
	}
	enabled := zz.Bool("enabled")
	inst := NewInstance(prometheus.NewRegistry(), enabled, m)
	zz.Assert("C16.labels.two_vectors", zz.GhostLen("prom.newvec") == 2)
	// vector 0 = setup (test, result, statics...), vector 1 = iteration (test, stage, result, statics...)
	zz.Assert("C16.labels.setup_fixed", zz.GhostRecLen("prom.newvec", 0) == 2+2+n &&
		zz.GhostStr("prom.newvec", 0, 2) == TestNameLabel && zz.GhostStr("prom.newvec", 0, 3) == ResultLabel)
	zz.Assert("C16.labels.iteration_fixed", zz.GhostRecLen("prom.newvec", 1) == 2+3+n &&
		zz.GhostStr("prom.newvec", 1, 2) == TestNameLabel && zz.GhostStr("prom.newvec", 1, 3) == StageLabel && zz.GhostStr("prom.newvec", 1, 4) == ResultLabel)

	res := []ResultType{SuccessResult, FailedResult, DroppedResult}[zz.Choice("result", 3)]
	// durations are ARBITRARY non-negative nanosecond counts - a dropped iteration is recorded with duration 0 - and
	// every recorded outcome must produce its sample whatever the duration
	d, ds := zz.Int64("dur"), zz.Int64("setupDur")
	zz.Assume(d >= 0)
	zz.Assume(ds >= 0)
	inst.RecordIterationResult("scn", res, d)
	inst.RecordSetupResult("scn", Result(zz.Bool("setupFailed")), ds)
	nobs := zz.GhostLen("prom.observe")
	zz.Cover("C16.labels.reached")
	zz.CoverIf("C16.labels.zero_duration_sample", enabled && d == 0)
	if !enabled {
		zz.Assert("C16.labels.disabled_records_only_setup", nobs == 1)
	} else {
		zz.Assert("C16.labels.one_sample_each", nobs == 2)
		if nobs != 2 {
			return
		}
		// iteration observation: [vec, test, stage, result, statics..., value]
		zz.Assert("C16.labels.iteration_sample", zz.GhostInt("prom.observe", 0, 0) == zz.GhostInt("prom.newvec", 1, 0) &&
			zz.GhostStr("prom.observe", 0, 1) == "scn" && zz.GhostStr("prom.observe", 0, 2) == IterationStage &&
			zz.GhostStr("prom.observe", 0, 3) == string(res) && zz.GhostRecLen("prom.observe", 0) == 1+3+n+1)
		for i := 0; i < n; i++ {
			name := zz.GhostStr("prom.newvec", 1, 5+i)
			zz.Assert("C16.labels.iteration_value_paired_with_its_name", zz.GhostStr("prom.observe", 0, 4+i) == m[name])
		}
	}
	so := nobs - 1
	if so < 0 {
		return
	}
	wantSetup := "success"
	if zz.Bool("setupFailed") {
		wantSetup = "fail"
	}
	zz.Assert("C16.labels.setup_sample", zz.GhostInt("prom.observe", so, 0) == zz.GhostInt("prom.newvec", 0, 0) &&
		zz.GhostStr("prom.observe", so, 1) == "scn" && zz.GhostStr("prom.observe", so, 2) == wantSetup && zz.GhostRecLen("prom.observe", so) == 1+2+n+1)
	for i := 0; i < n; i++ {
		name := zz.GhostStr("prom.newvec", 0, 4+i)
		zz.Assert("C16.labels.setup_value_paired_with_its_name", zz.GhostStr("prom.observe", so, 3+i) == m[name])
	}
	inst.Reset()
	zz.Assert("C16.labels.reset_clears_both", zz.GhostLen("prom.reset") == 2 && zz.GhostInt("prom.reset", 0, 0) != zz.GhostInt("prom.reset", 1, 0))
}

// VerifC16_SecondRunExportsItsOwnSamples: two consecutive runs on ONE metrics instance (the process-wide instance of
// an embedding that executes twice): run 1 records an iteration outcome and a setup outcome; the next run starts with
// Reset (as Run.Do does) and records its own outcomes, arbitrary and possibly the same label combination as run 1.
// What the registry exports afterwards - observations made through children of the vectors' CURRENT generation; Reset
// deletes a vector's children, a child kept from before is an orphan nothing collects - is exactly run 2's samples:
// one iteration sample with run 2's result (when iteration metrics are enabled; none otherwise) and one setup sample
// with run 2's setup outcome; nothing of run 1 remains and nothing of run 2 is lost in an orphan.
//
//verif:ghostlog 1
//verif:noreplay Prometheus is replaced by the engine's abstract multiset
func VerifC16_SecondRunExportsItsOwnSamples() {
	enabled := zz.Bool("enabled")
	inst := NewInstance(prometheus.NewRegistry(), enabled, map[string]string{"env": "x"})
	results := []ResultType{SuccessResult, FailedResult, DroppedResult}
	r1, r2 := results[zz.Choice("result1", 3)], results[zz.Choice("result2", 3)]
	s1, s2 := zz.Bool("setupFailed1"), zz.Bool("setupFailed2")
	// run 1
	inst.Reset()
	inst.RecordSetupResult("scn", Result(s1), 1)
	inst.RecordIterationResult("scn", r1, 1)
	inst.RecordIterationStage("scn", "stage-a", r1, 1)
	// run 2
	inst.Reset()
	base := zz.GhostLen("prom.observe")
	inst.RecordSetupResult("scn", Result(s2), 2)
	inst.RecordIterationResult("scn", r2, 2)
	live := zz.GhostLen("prom.observe") - base
	zz.Cover("C16.second.reached")
	zz.CoverIf("C16.second.same_labels_as_first_run", enabled && r1 == r2 && s1 == s2)
	zz.Assert("C16.second.nothing_recorded_into_an_orphan", zz.GhostLen("prom.orphan") == 0)
	want := 1
	if enabled {
		want = 2
	}
	zz.Assert("C16.second.exactly_its_own_samples", live == want)
	if live != want {
		return
	}
	wantSetup := "success"
	if s2 {
		wantSetup = "fail"
	}
	zz.Assert("C16.second.setup_sample_is_run_2s", zz.GhostStr("prom.observe", base, 2) == wantSetup)
	if enabled {
		zz.Assert("C16.second.iteration_sample_is_run_2s", zz.GhostStr("prom.observe", base+1, 3) == string(r2) && zz.GhostStr("prom.observe", base+1, 2) == IterationStage)
	}
	// and both vectors were reset between the runs
	zz.Assert("C16.second.both_vectors_reset_between_runs", zz.GhostLen("prom.reset") == 4)
}

// VerifC01_SecondRunExportsItsOwnCounts: the harness above, registered under C01 for its "the exported iteration
// metrics carry the same counts" clause across runs of one process.
//
//verif:ghostlog 1
//verif:noreplay Prometheus is replaced by the engine's abstract multiset
func VerifC01_SecondRunExportsItsOwnCounts() { VerifC16_SecondRunExportsItsOwnSamples() }
