//verif:pkg internal/metrics
package metrics

import (
	"github.com/prometheus/client_golang/prometheus"

	zz "github.com/form3tech-oss/f1/v2/internal/zzverif"
)

// VerifC16_Labels: a metrics instance built from a static-label map of 0..3 keys with ARBITRARY values, for every
// iteration order of the map (each `range` over the map is a symbolic permutation): the label NAMES registered for
// both vectors and the label VALUES attached to every observation are index-aligned (value_i = map[name_i]), the
// fixed labels come first, an iteration observation carries (scenario, "iteration", result), a setup observation
// (scenario, result); with iteration metrics disabled no iteration sample is recorded; Reset clears both vectors.
// Prometheus itself is an abstract multiset keyed by the label-value vector.
//
//verif:ghostlog 1
//verif:noreplay Prometheus is replaced by the engine's abstract multiset
func VerifC16_Labels() {
	n := zz.Choice("nlabels", 4)
	names := []string{"id", "ID", "env"} // two keys differ only by case: orderings that ignore case cannot tell them apart
	m := map[string]string{}
	for i := 0; i < n; i++ {
		m[names[i]] = zz.String("val", i)
	}
	enabled := zz.Bool("enabled")
	inst := NewInstance(prometheus.NewRegistry(), enabled, m)
	zz.Assert("C16.labels.two_vectors", zz.GhostLen("prom.newvec") == 2)
	// vector 0 = setup (test, result, statics...), vector 1 = iteration (test, stage, result, statics...)
	zz.Assert("C16.labels.setup_fixed", zz.GhostRecLen("prom.newvec", 0) == 2+2+n &&
		zz.GhostStr("prom.newvec", 0, 2) == TestNameLabel && zz.GhostStr("prom.newvec", 0, 3) == ResultLabel)
	zz.Assert("C16.labels.iteration_fixed", zz.GhostRecLen("prom.newvec", 1) == 2+3+n &&
		zz.GhostStr("prom.newvec", 1, 2) == TestNameLabel && zz.GhostStr("prom.newvec", 1, 3) == StageLabel && zz.GhostStr("prom.newvec", 1, 4) == ResultLabel)

	res := []ResultType{SuccessResult, FailedResult, DroppedResult}[zz.Choice("result", 3)]
	// durations are ARBITRARY non-negative nanosecond counts - a dropped iteration is recorded with duration 0 - and
	// every recorded outcome must produce its sample whatever the duration
	d, ds := zz.Int64("dur"), zz.Int64("setupDur")
	zz.Assume(d >= 0)
	zz.Assume(ds >= 0)
	inst.RecordIterationResult("scn", res, d)
	inst.RecordSetupResult("scn", Result(zz.Bool("setupFailed")), ds)
	nobs := zz.GhostLen("prom.observe")
	zz.Cover("C16.labels.reached")
	zz.CoverIf("C16.labels.zero_duration_sample", enabled && d == 0)
	if !enabled {
		zz.Assert("C16.labels.disabled_records_only_setup", nobs == 1)
	} else {
		zz.Assert("C16.labels.one_sample_each", nobs == 2)
		if nobs != 2 {
			return
		}
		// iteration observation: [vec, test, stage, result, statics..., value]
		zz.Assert("C16.labels.iteration_sample", zz.GhostInt("prom.observe", 0, 0) == zz.GhostInt("prom.newvec", 1, 0) &&
			zz.GhostStr("prom.observe", 0, 1) == "scn" && zz.GhostStr("prom.observe", 0, 2) == IterationStage &&
			zz.GhostStr("prom.observe", 0, 3) == string(res) && zz.GhostRecLen("prom.observe", 0) == 1+3+n+1)
		for i := 0; i < n; i++ {
			name := zz.GhostStr("prom.newvec", 1, 5+i)
			zz.Assert("C16.labels.iteration_value_paired_with_its_name", zz.GhostStr("prom.observe", 0, 4+i) == m[name])
		}
	}
	so := nobs - 1
	if so < 0 {
		return
	}
	wantSetup := "success"
	if zz.Bool("setupFailed") {
		wantSetup = "fail"
	}
	zz.Assert("C16.labels.setup_sample", zz.GhostInt("prom.observe", so, 0) == zz.GhostInt("prom.newvec", 0, 0) &&
		zz.GhostStr("prom.observe", so, 1) == "scn" && zz.GhostStr("prom.observe", so, 2) == wantSetup && zz.GhostRecLen("prom.observe", so) == 1+2+n+1)
	for i := 0; i < n; i++ {
		name := zz.GhostStr("prom.newvec", 0, 4+i)
		zz.Assert("C16.labels.setup_value_paired_with_its_name", zz.GhostStr("prom.observe", so, 3+i) == m[name])
	}
	inst.Reset()
	zz.Assert("C16.labels.reset_clears_both", zz.GhostLen("prom.reset") == 2 && zz.GhostInt("prom.reset", 0, 0) != zz.GhostInt("prom.reset", 1, 0))
}
