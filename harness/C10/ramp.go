//verif:pkg internal/trigger/ramp
package ramp

import (
	"time"

	zz "github.com/form3tech-oss/f1/v2/internal/zzverif"
)

// c10ParseRate stands in for rate.ParseRate (checked on its own under C14): an arbitrary non-negative
// rate per arbitrary positive unit, the same unit for both ends.
func c10ParseRate(arg string) (int, time.Duration, error) {
	r := zz.Int("rate:" + arg)
	zz.Assume(r >= 0)
	zz.Assume(r < 1<<20)
	u := zz.Int64("unit")
	zz.Assume(u > 0)
	zz.Assume(u <= 1<<36)
	return r, time.Duration(u), nil
}

// VerifC10_Ramp: the ramp profile (distribution none, jitter 0) from start-rate S to end-rate E (S != E, both in
// [0, 2^20)) over an arbitrary duration D (unit <= D < 2^42 ns), queried at its start and at two later instants
// o1 <= o2: inside the ramp (o <= D) each value is within 1 of S + o*(E-S)/D, inside [min(S,E), max(S,E)] and the
// two values are ordered like the targets (exactly E at o = D: VerifC10_RampEnd); 0 after D; the reported duration is D and the tick
// interval is the rate unit.
//
//verif:fp relaxed
//verif:ints math
//verif:solver z3new
//verif:fpmono 1
//verif:timeout 200
//verif:replace $M/internal/trigger/rate.ParseRate c10ParseRate
//verif:noreplay rate.ParseRate is replaced by a harness stand-in
func VerifC10_Ramp() {
	d := zz.Int64("D")
	zz.Assume(d < 1<<42)
	rates, err := CalculateRampRate("S", "E", "none", time.Duration(d), 0)
	s, e, unit := zz.Int("rate:S"), zz.Int("rate:E"), zz.Int64("unit")
	if err != nil {
		zz.Cover("C10.ramp.rejected")
		zz.Assert("C10.ramp.rejected_only_when_degenerate", s == e || d < unit)
		return
	}
	zz.Assert("C10.ramp.accepted_is_wellformed", s != e && d >= unit && d > 0)
	zz.Assert("C10.ramp.duration_and_interval", int64(rates.Duration) == d && int64(rates.IterationDuration) == unit)
	o1, o2 := zz.Int64("o1"), zz.Int64("o2")
	zz.Assume(0 <= o1)
	zz.Assume(o1 <= o2)
	zz.Assume(o2 < 1<<43)
	t0 := int64(1 << 44)
	q0 := rates.Rate(zz.Time(t0))
	q1 := rates.Rate(zz.Time(t0 + o1))
	q2 := rates.Rate(zz.Time(t0 + o2))
	zz.Cover("C10.ramp.reached")
	zz.Assert("C10.ramp.starts_at_start_rate", q0 == s)
	lo, hi := s, e
	if lo > hi {
		lo, hi = hi, lo
	}
	df, sf, ef := float64(d), float64(s), float64(e)
	if o1 <= d {
		zz.CoverIf("C10.ramp.inside", o1 > 0 && o1 < d)
		zz.Assert("C10.ramp.range", lo <= q1 && q1 <= hi)
		err1 := zz.RSub(zz.RMul(zz.RSub(float64(q1), sf), df), zz.RMul(float64(o1), zz.RSub(ef, sf)))
		zz.Assert("C10.ramp.within_one", zz.RLeq(zz.RAbs(err1), zz.RMul(df, 1.000001)))
		if o2 <= d {
			if s <= e {
				zz.Assert("C10.ramp.monotone_up", q1 <= q2)
			} else {
				zz.Assert("C10.ramp.monotone_down", q1 >= q2)
			}
		}
	}
	if o2 > d {
		zz.CoverIf("C10.ramp.after", true)
		zz.Assert("C10.ramp.zero_after_duration", q2 == 0)
	}
}

func c10ParseRateBV(arg string) (int, time.Duration, error) {
	r := zz.Int("rate:" + arg)
	zz.Assume(r >= 0)
	zz.Assume(r < 1<<20)
	return r, time.Second, nil
}

// VerifC10_RampEnd: in EXACT IEEE-754 arithmetic (bit-vector integers), the value at exactly the end of the ramp
// is exactly the end rate, and one nanosecond later it is 0 - for every duration in [1s, 2^42 ns) and all rates.
//
//verif:tier thorough
//verif:timeout 400
//verif:replace $M/internal/trigger/rate.ParseRate c10ParseRateBV
//verif:noreplay rate.ParseRate is replaced by a harness stand-in
func VerifC10_RampEnd() {
	d := zz.Int64("D")
	zz.Assume(d >= int64(time.Second))
	zz.Assume(d < 1<<42)
	rates, err := CalculateRampRate("S", "E", "none", time.Duration(d), 0)
	s, e := zz.Int("rate:S"), zz.Int("rate:E")
	zz.Assume(s != e)
	zz.Assert("C10.rampend.accepted", err == nil)
	if err != nil {
		return
	}
	t0 := int64(1 << 44)
	q0 := rates.Rate(zz.Time(t0))
	qEnd := rates.Rate(zz.Time(t0 + d))
	qAfter := rates.Rate(zz.Time(t0 + d + 1))
	zz.Cover("C10.rampend.reached")
	zz.Assert("C10.rampend.start", q0 == s)
	zz.Assert("C10.rampend.end_rate_at_end", qEnd == e)
	zz.Assert("C10.rampend.zero_after", qAfter == 0)
}
