//verif:pkg internal/trigger/staged
package staged

import (
	"time"

	zz "github.com/form3tech-oss/f1/v2/internal/zzverif"
)

const (
	c10MaxDur    = 1 << 47 // ns (~39 h); stated bound
	c10MaxTarget = 1 << 20
)

func c10Stages(n int) []Stage {
	st := make([]Stage, n)
	for i := 0; i < n; i++ {
		d := zz.Int64("D", i)
		zz.Assume(d >= 0)
		zz.Assume(d < c10MaxDur)
		t := zz.Int("T", i)
		zz.Assume(t >= 0)
		zz.Assume(t < c10MaxTarget)
		// StartTarget is deliberately garbage: the calculator must chain targets itself
		st[i] = Stage{Duration: time.Duration(d), EndTarget: t, StartTarget: zz.Int("garbageStart", i)}
	}
	return st
}

// reference: which stage is active at elapsed e (ns since the first query) and its parameters
type c10Ref struct {
	active      bool
	from, to    int   // targets of the active stage
	offset, dur int64 // elapsed within the stage, stage duration
	stage       int   // index of the active stage
}

func c10Reference(st []Stage, e int64) c10Ref {
	cum := int64(0)
	prev := 0
	r := c10Ref{}
	for i := 0; i < len(st); i++ {
		d := int64(st[i].Duration)
		if !r.active && cum <= e && e < cum+d {
			r = c10Ref{active: true, from: prev, to: st[i].EndTarget, offset: e - cum, dur: d, stage: i}
		}
		cum += d
		prev = st[i].EndTarget
	}
	return r
}

func c10Abs(x float64) float64 {
	if x < 0 {
		return -x
	}
	return x
}

// interpolation exactly as documented for one segment: start + trunc(offset/duration * (end-start))
func c10Interp(r c10Ref) int {
	position := float64(r.offset) / float64(r.dur)
	return r.from + int(position*float64(r.to-r.from))
}

// VerifC10_StagedSelection: a calculator over n <= 3 (thorough: 4) ARBITRARY stages (durations in [0, 2^42) ns incl. zero-length,
// targets in [0, 2^20), the StartTarget fields filled with garbage), queried at three non-decreasing instants (the
// first defines the start): every value is the documented interpolation applied to exactly the stage, offset and
// start/end targets that the reference selects (cum_{i-1} <= e < cum_i, start target = previous end target,
// beginning at 0); 0 after the last stage; MaxDuration is the sum of durations. Float operators are uninterpreted
// here (the arithmetic of one segment is VerifC10_Segment); integers are mathematical.
//
//verif:fp uf
//verif:ints math
//verif:timeout 120
//verif:unroll 12
func VerifC10_StagedSelection() {
	// 3 stages also in the quick tier: one query leaving two stages and landing inside a third needs them
	// (seeded change C10d was missed with 2: skipping both just runs off the end)
	maxN := 3
	if zz.Thorough() {
		maxN = 4
	}
	n := zz.Choice("n", maxN) + 1
	st := c10Stages(n)
	calc := NewRateCalculator(st, nil)
	t0 := zz.Int64("t0")
	zz.Assume(t0 > 0)
	zz.Assume(t0 < 1<<50)
	e1, e2 := zz.Int64("e1"), zz.Int64("e2")
	zz.Assume(0 <= e1)
	zz.Assume(e1 <= e2)
	zz.Assume(e2 < 1<<49)
	sum := int64(0)
	for i := 0; i < n; i++ {
		sum += int64(st[i].Duration)
	}
	zz.Assert("C10.sel.maxduration_is_sum", int64(calc.MaxDuration()) == sum)
	q := [3]int{calc.Rate(zz.Time(t0)), calc.Rate(zz.Time(t0 + e1)), calc.Rate(zz.Time(t0 + e2))}
	r := [3]c10Ref{c10Reference(st, 0), c10Reference(st, e1), c10Reference(st, e2)}
	zz.Cover("C10.sel.reached")
	zz.CoverIf("C10.sel.mid_stage", r[1].active && r[1].offset > 0 && r[1].from != r[1].to)
	zz.CoverIf("C10.sel.after_end", !r[2].active)
	zz.CoverIf("C10.sel.zero_length_stage", n >= 2 && st[0].Duration == 0 && r[1].active)
	zz.CoverIf("C10.sel.skips_a_stage", n >= 2 && r[1].active && r[2].active && r[1].dur != r[2].dur)
	zz.CoverIf("C10.sel.one_query_leaves_two_stages", n == 3 && r[1].active && r[1].stage == 0 && r[2].active && r[2].stage == 2 && st[0].Duration > 0 && st[1].Duration > 0)
	for k := 0; k < 3; k++ {
		if r[k].active {
			zz.Assert("C10.sel.value_is_interpolation_of_selected_stage", q[k] == c10Interp(r[k]))
		} else {
			zz.Assert("C10.sel.zero_after_end", q[k] == 0)
		}
	}
}

// VerifC10_Segment: the arithmetic of one interpolated segment, through the real calculator: a zero-length
// first stage sets an arbitrary start target S, the second stage has arbitrary duration D and end target E;
// queried at two offsets o1 <= o2 inside the segment: each value is within 1 of the exact S + o*(E-S)/D, never
// outside [min(S,E), max(S,E)], and the values are ordered like the targets (monotone). Floats: reals with the
// rounding error of every operation and monotone rounding; integers: mathematical.
//
//verif:fp relaxed
//verif:ints math
//verif:solver z3new
//verif:fpmono 1
//verif:timeout 200
func VerifC10_Segment() {
	s, e := zz.Int("S"), zz.Int("E")
	zz.Assume(s >= 0)
	zz.Assume(s < c10MaxTarget)
	zz.Assume(e >= 0)
	zz.Assume(e < c10MaxTarget)
	d := zz.Int64("D")
	zz.Assume(d > 0)
	zz.Assume(d < c10MaxDur)
	o1, o2 := zz.Int64("o1"), zz.Int64("o2")
	zz.Assume(0 <= o1)
	zz.Assume(o1 <= o2)
	zz.Assume(o2 < d)
	calc := NewRateCalculator([]Stage{{Duration: 0, EndTarget: s}, {Duration: time.Duration(d), EndTarget: e}}, nil)
	t0 := int64(1 << 40)
	calc.Rate(zz.Time(t0))
	q1 := calc.Rate(zz.Time(t0 + o1))
	q2 := calc.Rate(zz.Time(t0 + o2))
	lo, hi := s, e
	if lo > hi {
		lo, hi = hi, lo
	}
	zz.Cover("C10.seg.reached")
	zz.CoverIf("C10.seg.down", e < s && o1 > 0)
	zz.Assert("C10.seg.range", lo <= q1 && q1 <= hi && lo <= q2 && q2 <= hi)
	// |q - S - o*(E-S)/D| <= 1  <=>  |(q-S)*D - o*(E-S)| <= D   (exact, in reals)
	df, sf, ef := float64(d), float64(s), float64(e)
	err1 := zz.RSub(zz.RMul(zz.RSub(float64(q1), sf), df), zz.RMul(float64(o1), zz.RSub(ef, sf)))
	// "within 1": |q - exact| <= 1 (+ 1e-6 for the rounding error of the two float operations)
	zz.Assert("C10.seg.within_one", zz.RLeq(zz.RAbs(err1), zz.RMul(df, 1.000001)))
	if s <= e {
		zz.Assert("C10.seg.monotone_up", q1 <= q2)
	} else {
		zz.Assert("C10.seg.monotone_down", q1 >= q2)
	}
}
