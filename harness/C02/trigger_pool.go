//verif:pkg internal/workers
package workers

import (
	"context"
	"strconv"
	"sync"
	"sync/atomic"

	"github.com/form3tech-oss/f1/v2/internal/metrics"
	"github.com/form3tech-oss/f1/v2/internal/progress"
	zz "github.com/form3tech-oss/f1/v2/internal/zzverif"
	"github.com/form3tech-oss/f1/v2/pkg/f1/scenarios"
)

// ---- ghost state -----------------------------------------------------------------------------
// Shared ghost counters are atomics (so their updates are events of the schedule); per-thread ghost variables are
// plain package variables (every model thread has its own copy of plain memory).

const c02MaxIDs = 6

var (
	c02Started   atomic.Int64
	c02Dropped   atomic.Int64
	c02LastID    [24]uint64   // indexed by model thread: id granted by that thread's last NextIteration call
	c02InFlight  atomic.Int64 // iterations currently executing
	c02HighWater atomic.Int64 // 1 once numWorkers iterations were in flight together
	c02Pool      *TriggerPool
	c02FirstTid  int
)

// stand-in for ActiveScenario.Run: the iteration body as a ghost interval
func c02RunFn(s *ActiveScenario, state *iterationState) {
	tid := zz.ThreadID()
	zz.Event("iter.start", tid*c02MaxStarts+c02StartLocal[tid]) // ghost: the k-th iteration started by this worker
	c02StartLocal[tid]++
	inflight := c02InFlight.Add(1)
	zz.Assert("C04.never_more_than_concurrency_in_flight", inflight <= int64(c02Pool.numWorkers))
	if inflight == int64(c02Pool.numWorkers) {
		c02HighWater.Store(1)
	}
	zz.Assert("C03.granted_id_reaches_the_iteration", state.t.Iteration == strconv.FormatUint(c02LastID[tid], 10))
	zz.Assert("C04.worker_uses_its_own_handle", tid >= c02FirstTid && tid < c02FirstTid+c02Pool.numWorkers &&
		state == c02Pool.iterationStatePool[tid-c02FirstTid])
	c02Started.Add(1)
	c02InFlight.Add(-1)
}

// per model thread: number of iterations it has started (names the "iter.start" ghost events)
const c02MaxStarts = 8

var c02StartLocal [24]int

func c02DroppedFn(s *ActiveScenario) { c02Dropped.Add(1) }

// wrapper around sync.Cond.Wait: a worker must never go to sleep while work is pending and the pool is running
// (it would miss it until the next tick: fewer than `concurrency` workers usable). The ghost reads happen with the
// pool lock held, immediately before Wait releases it.
func c02CondWait(c *sync.Cond) {
	pending := c02Pool.jobsToExecute.num.Load()
	stopped := c02Pool.stopWorkers.Load()
	zz.Assert("C04.worker_never_parks_with_pending_work", pending <= 0 || stopped)
	c.Wait()
}

// wrapper around sync.WaitGroup.Done: a worker leaves the pool (signs off from the manager's running-workers group)
// only when the pool has been told to stop or the worker itself was refused an id (limit reached) - never while the
// pool is running and able to take work: otherwise pending requests could no longer occupy `concurrency` workers
func c02WgDone(wg *sync.WaitGroup) {
	tid := zz.ThreadID()
	if c02Mgr != nil && wg == &c02Mgr.runningWorkers && tid >= c02FirstTid && tid < c02FirstTid+c02Pool.numWorkers {
		zz.Assert("C04.worker_leaves_only_when_pool_stops_or_limit_reached", c02Pool.stopWorkers.Load() || c02Refused[tid])
	}
	wg.Add(-1)
}

var (
	c02Mgr     *PoolManager
	c02Refused [24]bool
)

// wrapper around the real NextIteration: records what was granted
func c02NextIteration(m *PoolManager) (uint64, error) {
	id, err := m.NextIteration()
	if err == nil {
		c02LastID[zz.ThreadID()] = id
	} else {
		c02Refused[zz.ThreadID()] = true
		zz.Event("refused", zz.ThreadID()) // a worker that is refused stops: at most one refusal per thread
	}
	return id, err
}

type c02Config struct {
	workers, ticks, nmax int
	maxLimit             uint64
}

// c02Scenario drives a real trigger pool: the harness main thread is the ticker (ticks x Trigger with symbolic
// sizes), the pool's own goroutines (workers, stop goroutine) run the real code, an environment thread cancels the
// parent context at an arbitrary moment, and the max-iterations limit is symbolic. After WaitForCompletion the
// conservation laws are asserted over ALL interleavings.
func c02Scenario(cfg c02Config) {
	limit := zz.Uint64("limit")
	zz.Assume(limit <= cfg.maxLimit)
	as := NewActiveScenario(&scenarios.Scenario{Name: "scn"}, &metrics.Metrics{}, &progress.Stats{}, nil, nil)
	m := New(limit, as)
	pool := m.NewTriggerPool(cfg.workers)
	c02Pool = pool
	c02Mgr = m
	c02FirstTid = 1
	c02StartLocal = [24]int{}
	c02Refused = [24]bool{}
	ctx, cancel := context.WithCancel(context.Background())
	workerCtx := pool.Start(ctx)
	zz.Event("started")
	envCancels := zz.Bool("envCancels")
	go func() {
		if envCancels {
			cancel()
		}
	}()
	requested := int64(0)
	counted := int64(0)
	beforeRefusal := int64(0)
	for i := 0; i < cfg.ticks; i++ {
		n := zz.Int("n", i)
		zz.Assume(n >= 0)
		zz.Assume(n <= cfg.nmax)
		live := workerCtx.Err() == nil
		zz.Event("tick", i)
		pool.Trigger(workerCtx, n)
		zz.Event("tick.done", i)
		requested += int64(n)
		_ = live
	}
	if !envCancels {
		cancel() // duration end: triggering stops
	}
	<-m.WaitForCompletion()
	started, dropped := c02Started.Load(), c02Dropped.Load()
	residue := pool.jobsToExecute.num.Load()
	if residue < 0 {
		residue = 0
	}
	limitHit := m.MaxIterationsReached()
	_, _ = counted, beforeRefusal
	zz.Cover("C02.done")
	if cfg.ticks > 1 {
		zz.CoverIf("C02.some_started_some_dropped", started > 0 && dropped > 0)
	}
	if cfg.maxLimit > 0 {
		zz.CoverIf("C02.limit_hit", limitHit)
	}
	zz.CoverIf("C04.all_workers_busy_together", c02HighWater.Load() == 1)
	// nothing is invented, and without a limit nothing is lost: every request is started, reported dropped, or was
	// never admitted because triggering had already stopped (cancelled context / residue of a late tick)
	zz.Assert("C02.no_request_counted_twice", started+dropped+residue <= requested)
	zz.Assert("C02.started_within_limit", limit == 0 || uint64(started) <= limit)
	zz.Assert("C03.exactly_limit_when_limit_ends_run", !limitHit || uint64(started) == limit)
	// requests made when the limit had already been reached (a worker was refused an id before the tick was
	// issued) can only fail because of the limit: they must never be reported as dropped
	droppable := int64(0)
	var lateTick [8]bool
	for i := 0; i < cfg.ticks; i++ {
		late := false
		for w := 0; w < cfg.workers; w++ {
			if zz.Happened("refused", c02FirstTid+w) && zz.Before("refused", "tick", c02FirstTid+w, i) {
				late = true
			}
		}
		lateTick[i] = late
		if !late {
			droppable += int64(zz.Int("n", i))
		}
	}
	refusals := int64(0)
	for w := 0; w < cfg.workers; w++ {
		if zz.Happened("refused", c02FirstTid+w) {
			// a refusal consumed one admitted request (its take succeeded); it was certainly a request of a not-late
			// tick when the refusal precedes every late tick (a later refusal of another worker may have taken a
			// late tick's request instead - found by the 2-worker thorough run - and is then not charged)
			early := true
			for i := 0; i < cfg.ticks; i++ {
				if lateTick[i] && !zz.Before("refused", "tick", c02FirstTid+w, i) {
					early = false
				}
			}
			if early {
				refusals++
			}
		}
	}
	// every tick SUPERSEDES what was pending: between the moment tick i has been published and the next tick, at most
	// n_i iterations can be taken from it, plus at most one straggler per worker whose take preceded the publication
	// (so load requested by an earlier tick is never applied in a later interval - also when the later tick asks
	// for nothing). Ticks that are not admitted - context already cancelled, limit already reached - are exempt.
	for i := 0; i < cfg.ticks && !envCancels; i++ {
		if lateTick[i] {
			continue // not admitted: the limit had been reached (triggering is over)
		}
		after := 0
		for w := 0; w < cfg.workers; w++ {
			for k := 0; k < c02MaxStarts; k++ {
				id := (c02FirstTid+w)*c02MaxStarts + k
				if zz.Happened("iter.start", id) && zz.Before("tick.done", "iter.start", i, id) &&
					(i == cfg.ticks-1 || zz.Before("iter.start", "tick", id, i+1)) {
					after++
				}
			}
		}
		zz.Assert("C02.tick_supersedes_pending_requests", after <= zz.Int("n", i)+cfg.workers)
	}
	// the requests of the not-late ticks pay for every start, every refused take and every reported drop
	zz.Assert("C02.limit_starved_requests_never_reported_dropped", dropped+started+refusals <= droppable)
	anyRefusal := false
	for w := 0; w < cfg.workers; w++ {
		if zz.Happened("refused", c02FirstTid+w) {
			anyRefusal = true
		}
	}
	if !anyRefusal && !envCancels {
		// no worker was ever refused an id (so nothing can have failed "solely because of the limit") and all
		// ticks were admitted (the context is cancelled only after the last tick): full conservation
		zz.Assert("C02.conserved_without_limit", started+dropped == requested && residue == 0)
	}
}

// VerifC02_OneWorker: 1 worker, 2 ticks of 0..2 requests, limit 0..2, cancellation at any moment.
//
//verif:conc
//verif:unroll 3
//verif:timeout 300
//verif:replace (*$M/internal/workers.ActiveScenario).Run c02RunFn
//verif:replace (*sync.Cond).Wait c02CondWait
//verif:replace (*sync.WaitGroup).Done c02WgDone
//verif:replace (*$M/internal/workers.ActiveScenario).RecordDroppedIteration c02DroppedFn
//verif:replace (*$M/internal/workers.PoolManager).NextIteration c02NextIteration
func VerifC02_OneWorker() { c02Scenario(c02Config{workers: 1, ticks: 2, nmax: 2, maxLimit: 2}) }

// VerifC02_TwoWorkers: 2 workers, 2 ticks of 0..2 requests, limit 0..2, cancellation at any moment.
//
//verif:conc
//verif:unroll 3
//verif:timeout 600
//verif:tier thorough
//verif:replace (*$M/internal/workers.ActiveScenario).Run c02RunFn
//verif:replace (*sync.Cond).Wait c02CondWait
//verif:replace (*sync.WaitGroup).Done c02WgDone
//verif:replace (*$M/internal/workers.ActiveScenario).RecordDroppedIteration c02DroppedFn
//verif:replace (*$M/internal/workers.PoolManager).NextIteration c02NextIteration
func VerifC02_TwoWorkers() { c02Scenario(c02Config{workers: 2, ticks: 2, nmax: 2, maxLimit: 2}) }

// ---- the same scenario under the other properties it decides ---------------------------------

// VerifC09_TickSupersedesPending: the trigger-pool scenario under C09 ("f1 never applies more load than the configured
// profile allows"): every admitted tick - also one that asks for nothing - replaces what was still pending, so load
// requested for one interval is not applied in a later one (obligation C02.tick_supersedes_pending_requests).
//
//verif:conc
//verif:unroll 3
//verif:timeout 300
//verif:replace (*$M/internal/workers.ActiveScenario).Run c02RunFn
//verif:replace (*sync.Cond).Wait c02CondWait
//verif:replace (*sync.WaitGroup).Done c02WgDone
//verif:replace (*$M/internal/workers.ActiveScenario).RecordDroppedIteration c02DroppedFn
//verif:replace (*$M/internal/workers.PoolManager).NextIteration c02NextIteration
func VerifC09_TickSupersedesPending() {
	c02Scenario(c02Config{workers: 1, ticks: 2, nmax: 2, maxLimit: 0})
}

// VerifC03_TriggerPoolIds: trigger pool, workers racing for the last ids: at most `limit` iterations start, exactly
// `limit` when the limit ended the run, and the id granted by the dispenser is the one the iteration observes.
//
//verif:conc
//verif:unroll 3
//verif:timeout 300
//verif:replace (*$M/internal/workers.ActiveScenario).Run c02RunFn
//verif:replace (*sync.Cond).Wait c02CondWait
//verif:replace (*sync.WaitGroup).Done c02WgDone
//verif:replace (*$M/internal/workers.ActiveScenario).RecordDroppedIteration c02DroppedFn
//verif:replace (*$M/internal/workers.PoolManager).NextIteration c02NextIteration
func VerifC03_TriggerPoolIds() { c02Scenario(c02Config{workers: 1, ticks: 2, nmax: 2, maxLimit: 2}) }

// VerifC04_TriggerPoolConcurrency: trigger pool: never more than `concurrency` iterations in flight, every worker
// uses its own handle, and all workers can be busy at the same time (reachability witness).
//
//verif:conc
//verif:unroll 3
//verif:timeout 600
//verif:replace (*$M/internal/workers.ActiveScenario).Run c02RunFn
//verif:replace (*sync.Cond).Wait c02CondWait
//verif:replace (*sync.WaitGroup).Done c02WgDone
//verif:replace (*$M/internal/workers.ActiveScenario).RecordDroppedIteration c02DroppedFn
//verif:replace (*$M/internal/workers.PoolManager).NextIteration c02NextIteration
func VerifC04_TriggerPoolConcurrency() {
	c02Scenario(c02Config{workers: 2, ticks: 1, nmax: 2, maxLimit: 0})
}

// ---- continuous pool (users mode) -----------------------------------------------------------------

func c02Continuous(workers int, maxLimit uint64) { c02ContinuousEnv(workers, maxLimit, false) }

// earlyCancel: the parent context is cancelled by an environment thread at an arbitrary moment, also BEFORE or
// DURING the start-up of the workers (otherwise right after Start returned)
func c02ContinuousEnv(workers int, maxLimit uint64, earlyCancel bool) {
	limit := zz.Uint64("limit")
	zz.Assume(limit <= maxLimit)
	as := NewActiveScenario(&scenarios.Scenario{Name: "scn"}, &metrics.Metrics{}, &progress.Stats{}, nil, nil)
	m := New(limit, as)
	pool := m.NewContinuousPool(workers)
	c02Pool = &TriggerPool{numWorkers: workers, iterationStatePool: pool.iterationStatePool}
	c02Mgr = nil // the sign-off obligation of c02WgDone is about the trigger pool's workers
	c02Refused = [24]bool{}
	c02FirstTid = 1
	if earlyCancel {
		c02FirstTid = 2 // model thread 1 is the cancelling environment thread
	}
	ctx, cancel := context.WithCancel(context.Background())
	if earlyCancel {
		go func() { cancel() }()
	}
	pool.Start(ctx)
	cancel() // at an arbitrary moment relative to the workers
	<-m.WaitForCompletion()
	started := c02Started.Load()
	limitHit := m.MaxIterationsReached()
	zz.Cover("C03.users.done")
	if maxLimit > 0 {
		zz.CoverIf("C03.users.limit_hit", limitHit)
	}
	zz.CoverIf("C04.users.all_workers_busy_together", c02HighWater.Load() == 1)
	zz.Assert("C03.users.started_within_limit", limit == 0 || uint64(started) <= limit)
	zz.Assert("C03.users.exactly_limit_when_limit_ends_run", !limitHit || uint64(started) == limit)
}

// VerifC03_ContinuousPool: users mode: 2 workers racing for ids with limit 0..3, cancellation at any moment.
//
//verif:conc
//verif:unroll 3
//verif:timeout 600
//verif:replace (*$M/internal/workers.ActiveScenario).Run c02RunFn
//verif:replace (*sync.Cond).Wait c02CondWait
//verif:replace (*sync.WaitGroup).Done c02WgDone
//verif:replace (*$M/internal/workers.PoolManager).NextIteration c02NextIteration
func VerifC03_ContinuousPool() { c02Continuous(2, 3) }

// VerifC04_ContinuousPool: users mode: in-flight bound, own handles, all workers busy together.
//
//verif:conc
//verif:unroll 3
//verif:timeout 600
//verif:replace (*$M/internal/workers.ActiveScenario).Run c02RunFn
//verif:replace (*sync.Cond).Wait c02CondWait
//verif:replace (*sync.WaitGroup).Done c02WgDone
//verif:replace (*$M/internal/workers.PoolManager).NextIteration c02NextIteration
func VerifC04_ContinuousPool() { c02Continuous(2, 0) }

// VerifC05_ContinuousPoolShutdown: users mode under C05: 2 workers, the context cancelled at ANY moment - before the
// pool starts, while its workers are lining up at the start barrier, or later - with the DEADLOCK query: there is no
// reachable state in which a worker (or the caller waiting for completion) is blocked forever: the pool always
// terminates and its completion is always signalled.
//
//verif:conc
//verif:unroll 3
//verif:timeout 600
//verif:deadlock 1
//verif:replace (*$M/internal/workers.ActiveScenario).Run c02RunFn
//verif:replace (*sync.Cond).Wait c02CondWait
//verif:replace (*sync.WaitGroup).Done c02WgDone
//verif:replace (*$M/internal/workers.PoolManager).NextIteration c02NextIteration
func VerifC05_ContinuousPoolShutdown() { c02ContinuousEnv(2, 1, true) }

// VerifC05_PoolShutdown: the trigger-pool scenario under C05: after WaitForCompletion fired, every goroutine of the
// pool (workers AND the goroutine that drains and records dropped work) has finished - nothing is recorded and no
// iteration starts afterwards (the conservation equalities are read after completion and hold exactly). Deadlock
// query: no reachable prefix leaves a worker parked forever (lost wake-up), a lock held forever or the completion
// wait-group stuck: the pool always terminates once triggering stopped.
//
//verif:conc
//verif:unroll 3
//verif:timeout 300
//verif:deadlock 1
//verif:replace (*$M/internal/workers.ActiveScenario).Run c02RunFn
//verif:replace (*sync.Cond).Wait c02CondWait
//verif:replace (*sync.WaitGroup).Done c02WgDone
//verif:replace (*$M/internal/workers.ActiveScenario).RecordDroppedIteration c02DroppedFn
//verif:replace (*$M/internal/workers.PoolManager).NextIteration c02NextIteration
func VerifC05_PoolShutdown() { c02Scenario(c02Config{workers: 1, ticks: 2, nmax: 2, maxLimit: 2}) }

// VerifC01_PoolCountsEachRequestOnce: the one-worker pool scenario under C01: every request ends in exactly one of
// the result's counters - an iteration that was started is never ALSO recorded as dropped, and the dropped count is
// the number of requests that were superseded or pending at the stop (no iteration is double-counted).
//
//verif:conc
//verif:unroll 3
//verif:timeout 300
//verif:replace (*$M/internal/workers.ActiveScenario).Run c02RunFn
//verif:replace (*sync.Cond).Wait c02CondWait
//verif:replace (*sync.WaitGroup).Done c02WgDone
//verif:replace (*$M/internal/workers.ActiveScenario).RecordDroppedIteration c02DroppedFn
//verif:replace (*$M/internal/workers.PoolManager).NextIteration c02NextIteration
func VerifC01_PoolCountsEachRequestOnce() { c02Scenario(c02Config{workers: 1, ticks: 2, nmax: 2, maxLimit: 2}) }
