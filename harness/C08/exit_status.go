//verif:pkg internal/run
package run

import (
	"context"
	"errors"
	"time"

	"github.com/spf13/cobra"
	"github.com/spf13/pflag"

	"github.com/form3tech-oss/f1/v2/internal/envsettings"
	"github.com/form3tech-oss/f1/v2/internal/metrics"
	"github.com/form3tech-oss/f1/v2/internal/options"
	"github.com/form3tech-oss/f1/v2/internal/trigger/api"
	"github.com/form3tech-oss/f1/v2/internal/ui"
	zz "github.com/form3tech-oss/f1/v2/internal/zzverif"
	"github.com/form3tech-oss/f1/v2/pkg/f1/scenarios"
)

var c08Opts options.RunOptions
var c08Res *Result

// c08NewRun stands in for NewRun: it records the options the command assembled and prepares a
// Result with arbitrary counts and 0..2 errors under exactly those options.
func c08NewRun(
	opts options.RunOptions, _ *scenarios.Scenarios, _ *api.Trigger, _ time.Duration,
	_ envsettings.Settings, _ *metrics.Metrics, _ *ui.Output,
) (*Run, error) {
	c08Opts = opts
	r := NewResult(opts, nil, nil)
	s, f, d := zz.Uint64("s"), zz.Uint64("f"), zz.Uint64("d")
	zz.Assume(s <= 1<<55)
	zz.Assume(f <= 1<<55)
	zz.Assume(d <= 1<<55)
	r.snapshot.SuccessfulIterationDurations.Count = s
	r.snapshot.FailedIterationDurations.Count = f
	r.snapshot.DroppedIterationCount = d
	nerr := zz.Choice("nerr", 3)
	for i := 0; i < nerr; i++ {
		r.errors = append(r.errors, errors.New("setup failed"))
	}
	c08Res = r
	return &Run{result: r}, nil
}

func c08Do(r *Run, _ context.Context) (*Result, error) { return r.result, nil }

// VerifC08_ExitStatus: the command returns a non-nil error exactly when the flags are rejected
// (concurrency < 1) or the result's verdict is "failed" under the very options given on the
// command line (or taken from the config-file trigger); a single recorded error is returned as is.
//
//verif:replace $M/internal/run.NewRun c08NewRun
//verif:replace (*$M/internal/run.Run).Do c08Do
//verif:noreplay NewRun and Run.Do are replaced by harness stand-ins; cobra flag getters are nondeterministic stubs
func VerifC08_ExitStatus() {
	fromFile := zz.Bool("ignoreCommonFlags")
	fileOpts := api.Options{
		Scenario: "scn", Concurrency: zz.Int("file.concurrency"), MaxIterations: zz.Uint64("file.maxIterations"),
		MaxFailures: zz.Uint64("file.maxFailures"), MaxFailuresRate: zz.Int("file.maxFailuresRate"),
		IgnoreDropped: zz.Bool("file.ignoreDropped"),
	}
	b := api.Builder{
		New:               func(*pflag.FlagSet) (*api.Trigger, error) { return &api.Trigger{Options: fileOpts}, nil },
		IgnoreCommonFlags: fromFile,
	}
	c08Res = nil
	fn := runCmdExecute(nil, b, envsettings.Settings{}, nil, nil)
	cmd := &cobra.Command{}
	err := fn(cmd, []string{"scn"})

	if c08Res == nil {
		// the run was never created: only allowed because the flags were rejected
		zz.Cover("C08.exit.rejected")
		zz.Assert("C08.exit.reject_only_bad_concurrency", !fromFile && zz.Int("flag:concurrency") < 1 && err != nil)
		return
	}
	// options handed to the run are the ones given by the user
	var ign bool
	var mf uint64
	var mfr int
	if fromFile {
		ign, mf, mfr = fileOpts.IgnoreDropped, fileOpts.MaxFailures, fileOpts.MaxFailuresRate
	} else {
		ign, mf, mfr = zz.Bool("flag:ignore-dropped"), zz.Uint64("flag:max-failures"), zz.Int("flag:max-failures-rate")
		zz.Assert("C08.exit.concurrency_checked", c08Opts.Concurrency >= 1)
	}
	zz.Assert("C08.exit.options_forwarded", c08Opts.IgnoreDropped == ign && c08Opts.MaxFailures == mf && c08Opts.MaxFailuresRate == mfr)
	zz.Assume(mfr >= 0)
	zz.Assume(mfr <= 100)
	nerr := len(c08Res.errors)
	want := specFailed(zz.Uint64("s"), zz.Uint64("f"), zz.Uint64("d"), nerr, ign, mf, mfr)
	zz.Cover("C08.exit.ran")
	zz.CoverIf("C08.exit.ran.failed", want)
	zz.CoverIf("C08.exit.ran.passed", !want)
	zz.Assert("C08.exit.error_iff_failed", (err != nil) == want)
	if nerr == 1 {
		zz.Assert("C08.exit.single_error_returned", err == c08Res.errors[0])
	}
}

// VerifC08_ZeroIterations: the verdict is defined (no panic) for a run that executed nothing, for every option
// combination (including out-of-range rates), and it is "failed" only because of recorded errors.
func VerifC08_ZeroIterations() {
	nerr := zz.Choice("nerr", 3)
	r := NewResult(options.RunOptions{IgnoreDropped: zz.Bool("ign"), MaxFailures: zz.Uint64("mf"), MaxFailuresRate: zz.Int("mfr")}, nil, nil)
	for i := 0; i < nerr; i++ {
		r.errors = append(r.errors, errors.New("teardown failed"))
	}
	got := r.Failed()
	zz.Cover("C08.zero.reached")
	zz.Assert("C08.zero.verdict", got == (nerr > 0))
}
