//verif:pkg internal/run
package run

import (
	"errors"

	"github.com/form3tech-oss/f1/v2/internal/options"
	zz "github.com/form3tech-oss/f1/v2/internal/zzverif"
)

// specFailed is the documented verdict rule (C08), written independently of the implementation.
// The failed share is compared exactly (cross-multiplied), all counts are < 2^56 so nothing wraps.
func specFailed(s, f, d uint64, nerr int, ign bool, mf uint64, mfr int) bool {
	if nerr > 0 {
		return true
	}
	if !ign && d > 0 {
		return true
	}
	if mf == 0 && mfr == 0 {
		return f > 0
	}
	if mf > 0 && f > mf {
		return true
	}
	if mfr > 0 && 100*f > uint64(mfr)*(s+f+d) {
		return true
	}
	return false
}

func c08Result(nerr int) (*Result, uint64, uint64, uint64, bool, uint64, int) {
	s, f, d := zz.Uint64("s"), zz.Uint64("f"), zz.Uint64("d")
	zz.Assume(s <= 1<<55)
	zz.Assume(f <= 1<<55)
	zz.Assume(d <= 1<<55)
	ign := zz.Bool("ign")
	mf := zz.Uint64("mf")
	mfr := zz.Int("mfr")
	zz.Assume(mfr >= 0)
	zz.Assume(mfr <= 100)
	r := NewResult(options.RunOptions{IgnoreDropped: ign, MaxFailures: mf, MaxFailuresRate: mfr}, nil, nil)
	r.snapshot.SuccessfulIterationDurations.Count = s
	r.snapshot.FailedIterationDurations.Count = f
	r.snapshot.DroppedIterationCount = d
	for i := 0; i < nerr; i++ {
		r.errors = append(r.errors, errors.New("setup failed"))
	}
	return r, s, f, d, ign, mf, mfr
}

// VerifC08_Verdict: Result.Failed() equals the documented rule for every count triple, option
// combination and 0..2 recorded errors, and never panics (zero iterations included).
func VerifC08_Verdict() {
	nerr := zz.Choice("nerr", 3)
	r, s, f, d, ign, mf, mfr := c08Result(nerr)
	got := r.Failed()
	zz.Cover("C08.verdict.reached")
	zz.Assert("C08.verdict", got == specFailed(s, f, d, nerr, ign, mf, mfr))
}
