//verif:pkg internal/raterun
package raterun

import (
	"context"
	"time"

	zz "github.com/form3tech-oss/f1/v2/internal/zzverif"
)

const c18MaxCalls = 3

// c18Scenario: a runner with two schedules is started, optionally restarted, then either stopped or its parent
// context is cancelled. The supplied function is a ghost interval [fn.begin k, fn.end k]. The runner goroutine is
// the REAL loop (select over restart / next-schedule timer / ticker / cancellation, unrolled), the timers are
// driven by the environment (any delivery times, late or dropped ticks allowed, nothing after Stop()). Stated bound
// (//verif:horizon): the run is shorter than one hour, so the one-hour placeholder ticker that newSchedules arms before
// the first schedule starts never fires (if it did while no schedule is current, currentFrequency would index list[-1]).
func c18Scenario(withRestart bool, stopByCancel bool) { c18ScenarioN(withRestart, stopByCancel, 1) }

// invocation ghosts are named by (model thread, invocation count of that thread): the function is normally called by
// the runner goroutine (thread 1), but a changed runner may call it from helper goroutines
const c18MaxThreads = 10

var c18Local [24]int

func c18ScenarioN(withRestart bool, stopByCancel bool, restarts int) {
	c18Local = [24]int{}
	r, err := New(func(freq time.Duration) {
		tid := zz.ThreadID()
		id := tid*c18MaxCalls + c18Local[tid]
		c18Local[tid]++
		zz.Event("fn.begin", id)
		zz.Assert("C18.frequency_is_current_schedule", freq == time.Second || freq == 10*time.Second)
		zz.Event("fn.end", id)
	}, []Schedule{{StartDelay: 0, Frequency: time.Second}, {StartDelay: time.Minute, Frequency: 10 * time.Second}})
	zz.Assert("C18.constructed", err == nil)
	ctx, cancel := context.WithCancel(context.Background())
	zz.Event("start.call")
	r.Start(ctx)
	if withRestart {
		for i := 0; i < restarts; i++ {
			r.Restart()
		}
	}
	if stopByCancel {
		cancel()
		zz.Event("cancelled")
	} else {
		r.Stop()
		zz.Event("stop.returned")
		cancel()
	}
	zz.Cover("C18.done")
	for k := c18MaxCalls; k < c18MaxThreads*c18MaxCalls; k++ {
		zz.CoverIf("C18.fn_invoked", zz.Happened("fn.begin", k))
		zz.Assert("C18.no_invocation_before_start", !zz.Happened("fn.begin", k) || zz.Before("start.call", "fn.begin", 0, k))
		if !stopByCancel {
			// once Stop has returned the function is not executing and is never invoked again
			zz.Assert("C18.quiescent_after_stop", !zz.Happened("fn.begin", k) || zz.Before("fn.begin", "stop.returned", k, 0))
			zz.Assert("C18.not_executing_after_stop", !zz.Happened("fn.end", k) || zz.Before("fn.end", "stop.returned", k, 0))
		}
	}
}

// VerifC18_StartStop: Start ... Stop with up to 3 loop rounds of the runner goroutine.
//
//verif:conc
//verif:horizon 3600000000000
//verif:unroll 3
//verif:timeout 300
//verif:deadlock 1
func VerifC18_StartStop() { c18Scenario(false, false) }

// VerifC18_TwoRestartsNothingLeft: Start, Restart, Restart, Stop with the DEADLOCK / leak query: there is no reachable
// state in which some goroutine of the runner (or one started on its behalf) is blocked forever while nothing else
// can move - after Stop no goroutine of the runner remains, also when several restart requests were made.
//
//verif:conc
//verif:horizon 3600000000000
//verif:unroll 4
//verif:timeout 300
//verif:deadlock 1
func VerifC18_TwoRestartsNothingLeft() { c18ScenarioN(true, false, 2) }

// VerifC18_RestartStop: Start, Restart, Stop.
//
//verif:conc
//verif:horizon 3600000000000
//verif:unroll 3
//verif:timeout 300
//verif:deadlock 1
func VerifC18_RestartStop() { c18Scenario(true, false) }

var c18Restarts int

// wrapper around schedules.startFirst: marks the instant at which a Restart request is processed
func c18StartFirst(s *schedules) {
	zz.Event("restart.processed", c18Restarts)
	c18Restarts++
	s.startFirst()
}

// VerifC18_ScheduleTiming: real elapsed time is modelled (every timer/ticker/ghost event has a wall-clock instant,
// monotone with the schedule; a timer fires at arm-time + delay unless stopped or re-armed before that instant, and
// - Go <= 1.22 - a fired value stays in the channel buffer across a later Stop/Reset). Two schedules (0 / 1s and
// 1min / 10s), Start, an optional Restart, Stop, up to 5 loop rounds of the runner goroutine: the function is invoked
// at the SECOND schedule's frequency only when at least that schedule's start delay has elapsed since Start and
// since every Restart that was processed before the invocation (Restart goes back to the first schedule).
//
//verif:conc
//verif:horizon 3600000000000
//verif:unroll 5
//verif:timers real
//verif:timeout 600
//verif:replace (*$M/internal/raterun.schedules).startFirst c18StartFirst
func VerifC18_ScheduleTiming() { c18ScheduleTiming() }

// VerifC18_ScheduleTiming4: the same harness with 4 loop rounds of the runner goroutine. The smaller bound is kept
// next to the larger one because the encoding of 5 rounds can exceed the per-harness wall limit on changed code (seeded
// change C18-timer-reset: decided in 40 s at 4 rounds, not within 15 min at 5), while seeded change C18b needs the 5th.
//
//verif:conc
//verif:horizon 3600000000000
//verif:unroll 4
//verif:timers real
//verif:timeout 600
//verif:replace (*$M/internal/raterun.schedules).startFirst c18StartFirst
func VerifC18_ScheduleTiming4() { c18ScheduleTiming() }

func c18ScheduleTiming() {
	slow, fast := 0, 0
	c18Restarts = 0
	r, err := New(func(freq time.Duration) {
		if freq == 10*time.Second {
			zz.Event("fn.slow", slow)
			slow++
		} else {
			zz.Event("fn.fast", fast)
			fast++
		}
	}, []Schedule{{StartDelay: 0, Frequency: time.Second}, {StartDelay: time.Minute, Frequency: 10 * time.Second}})
	zz.Assert("C18.timing.constructed", err == nil)
	ctx, cancel := context.WithCancel(context.Background())
	zz.Event("start.call")
	r.Start(ctx)
	if zz.Bool("withRestart") {
		r.Restart()
	}
	r.Stop()
	cancel()
	zz.Cover("C18.timing.done")
	for k := 0; k < 2; k++ {
		zz.CoverIf("C18.timing.second_schedule_reached", zz.Happened("fn.slow", k))
		zz.Assert("C18.timing.second_schedule_not_before_its_start_delay", !zz.Happened("fn.slow", k) ||
			zz.NotBefore("start.call", "fn.slow", 0, k, time.Minute))
		for j := 0; j < 2; j++ {
			zz.Assert("C18.timing.restart_goes_back_to_first_schedule",
				!(zz.Happened("fn.slow", k) && zz.Happened("restart.processed", j) && zz.Before("restart.processed", "fn.slow", j, k)) ||
					zz.NotBefore("restart.processed", "fn.slow", j, k, time.Minute))
		}
	}
}
