// Package zzverif holds the intrinsics used by verification harnesses.
//
// Under the symbolic engine every function here is intercepted. Compiled
// natively (go test -overlay) the nondeterministic values are read from the
// solver model named by VERIF_MODEL, so that a counterexample becomes an
// ordinary Go test run against the real code.
package zzverif

import (
	"encoding/json"
	"fmt"
	"math"
	"math/rand"
	"os"
	"reflect"
	"strconv"
	"strings"
	"testing"
	"text/template/parse"
	"time"
)

type modelVal struct {
	Ty string `json:"ty"`
	V  string `json:"v"`
}

type modelDoc struct {
	Harness    string              `json:"harness"`
	Obligation string              `json:"obligation"`
	Kind       string              `json:"kind"`
	Values     map[string]modelVal `json:"values"`
}

var fuzzed = map[string]float64{}

var (
	model      modelDoc
	failedIDs  []string
	assumeFail bool
)

type assertFailed struct{ id string }
type assumeFailed struct{}

func key(name string, idx []int) string {
	if len(idx) == 0 {
		return name
	}
	parts := make([]string, len(idx))
	for i, x := range idx {
		parts[i] = strconv.Itoa(x)
	}
	return name + "[" + strings.Join(parts, ",") + "]"
}

func lookup(name string, idx []int) (string, bool) {
	v, ok := model.Values[key(name, idx)]
	return v.V, ok
}

func Bool(name string, idx ...int) bool {
	v, _ := lookup(name, idx)
	return v == "true"
}
func Int(name string, idx ...int) int     { return int(Int64(name, idx...)) }
func Int32(name string, idx ...int) int32 { return int32(Int64(name, idx...)) }
func Int64(name string, idx ...int) int64 {
	v, ok := lookup(name, idx)
	if !ok {
		return 0
	}
	i, _ := strconv.ParseInt(v, 10, 64)
	return i
}
func Uint64(name string, idx ...int) uint64 {
	v, ok := lookup(name, idx)
	if !ok {
		return 0
	}
	i, _ := strconv.ParseUint(v, 10, 64)
	return i
}
func Uint8(name string, idx ...int) uint8 { return uint8(Uint64(name, idx...)) }

// fuzzFloats: when set, float inputs are re-drawn at random (see RunReplay)
var fuzzFloats *rand.Rand

func Float64(name string, idx ...int) float64 {
	if fuzzFloats != nil {
		k := key(name, idx)
		if f, ok := fuzzed[k]; ok {
			return f
		}
		var f float64
		switch fuzzFloats.Intn(6) {
		case 4: // log-uniform magnitudes: abstractions over density / scale parameters need large operands to matter
			f = math.Pow(10, fuzzFloats.Float64()*15)
		case 5:
			f = math.Pow(10, fuzzFloats.Float64()*18)
		case 0:
			f = float64(fuzzFloats.Intn(64)) / 8
		case 1:
			f = 1 + fuzzFloats.Float64()*1000
		case 2:
			f = fuzzFloats.Float64()
		default:
			f = float64(1 + fuzzFloats.Intn(1_000_000))
		}
		fuzzed[k] = f
		return f
	}
	v, ok := lookup(name, idx)
	if !ok {
		return 0
	}
	b, _ := strconv.ParseUint(v, 16, 64)
	return math.Float64frombits(b)
}
func String(name string, idx ...int) string {
	v, _ := lookup(name, idx)
	return v
}

// StringExcluding: an arbitrary string containing none of the characters of excluded (engine: tagged, so that
// strings.Split / strings.TrimSpace of concatenations built from such pieces are computed structurally).
func StringExcluding(name, excluded string, idx ...int) string {
	v, _ := lookup(name, idx)
	return v
}

// FuncMapEntry: the capture-free function literal that parent stores under key in a map literal / function map
// (engine only: looked up in parent's SSA; such closures have no name a native test could call them by).
func FuncMapEntry(parent interface{}, key string) interface{} {
	panic("zzverif: FuncMapEntry is engine-only")
}

func Assume(c bool) {
	if !c {
		assumeFail = true
		panic(assumeFailed{})
	}
}

// Assert records an obligation; afterwards execution continues assuming it held.
func Assert(id string, c bool) {
	if !c {
		failedIDs = append(failedIDs, id)
		panic(assertFailed{id})
	}
}

// Check records an obligation without assuming it afterwards.
func Check(id string, c bool) {
	if !c {
		failedIDs = append(failedIDs, id)
	}
}

func Cover(id string)           {}
func CoverIf(id string, c bool) {}

func Implies(a, b bool) bool { return !a || b }
func And(a, b bool) bool     { return a && b }
func Or(a, b bool) bool      { return a || b }
func Ite(c bool, a, b int) int {
	if c {
		return a
	}
	return b
}

// Choice returns a value in [0,n); symbolically it forks one path per value.
func Choice(name string, n int, idx ...int) int { return Int(name, idx...) }

// Concretize forks one path per value of x in [lo,hi].
func Concretize(x, lo, hi int) int { return x }

// Thorough reports whether the thorough tier is running (harnesses use it to pick larger bounds).
func Thorough() bool { return os.Getenv("VERIF_TIER") == "thorough" }

// Native is true only in the natively compiled replay: for environment set-up that the symbolic side stubs out.
func Native() bool { return true }

func Unroll(n int)                 {}
func Note(s string)                {}
func Config(key, val string)       {}
func Observe(name string, v int64) {}

// Ghost logs are kept by the engine's stubs (atomic operations, display calls ...); natively they are empty.
func GhostLen(name string) int           { return 0 }
func GhostCount(name, prefix string) int { return 0 }
func GhostReset(name string)             {}

func GhostStr(name string, i, j int) string { return "" }
func GhostInt(name string, i, j int) int    { return 0 }
func GhostRecLen(name string, i int) int    { return 0 }

// SetClosureInt / GetClosureInt give harnesses access to a variable captured by a closure (engine only):
// used to start an inductive step from an arbitrary closure state. Natively unavailable.
func SetClosureInt(f interface{}, name string, v int) { panic("zzverif: closure state is engine-only") }
func GetClosureInt(f interface{}, name string) int    { panic("zzverif: closure state is engine-only") }
func SetClosureFloat(f interface{}, name string, v float64) {
	panic("zzverif: closure state is engine-only")
}
func GetClosureFloat(f interface{}, name string) float64 {
	panic("zzverif: closure state is engine-only")
}

// Exact real arithmetic for oracles (engine, relaxed-real mode: no rounding is applied; natively: float64).
func RAdd(a, b float64) float64 { return a + b }
func RSub(a, b float64) float64 { return a - b }
func RMul(a, b float64) float64 { return a * b }
func RDiv(a, b float64) float64 { return a / b }
func RAbs(a float64) float64 {
	if a < 0 {
		return -a
	}
	return a
}
func RLess(a, b float64) bool { return a < b }
func RLeq(a, b float64) bool  { return a <= b }

// FloorUF is math.Floor, named so that the uninterpreted-float mode maps it to the same symbol as the code's.
func FloorUF(x float64) float64 { return math.Floor(x) }

// FieldLen returns len() of the (possibly unexported) slice field `name` of the struct p points to.
func FieldLen(p interface{}, name string) int {
	return reflect.ValueOf(p).Elem().FieldByName(name).Len()
}

// ClockLogLen / ClockAt: the engine's log of every reading of the stubbed clocks on the current path (engine only).
func ClockLogLen() int    { return 0 }
func ClockAt(i int) int64 { return 0 }

// Ghost events for ordering obligations in concurrent harnesses (engine only).
func Event(name string, idx ...int)         {}
func Before(a, b string, ia, ib int) bool   { return true }
func Happened(name string, idx ...int) bool { return true }

// ThreadID is the index of the current model thread (0 = harness main; spawn order). Engine only.
func ThreadID() int { return 0 }

// InAlphabet: every character of s is one of the characters of alphabet (engine: a regular-language constraint).
func InAlphabet(s, alphabet string) bool {
	for _, c := range s {
		if !strings.ContainsRune(alphabet, c) {
			return false
		}
	}
	return true
}

// NotBefore(a, b, ia, ib, d): event b[ib] happens at least d (real time) after event a[ia] (engine, timers=real).
func NotBefore(a, b string, ia, ib int, d time.Duration) bool { return true }

// Time builds a time.Time from a nanosecond instant (symbolically: the engine's time model).
func Time(ns int64) time.Time { return time.Unix(0, ns) }

// TimeNs is the inverse of Time.
func TimeNs(t time.Time) int64 { return t.UnixNano() }

// RunReplay runs harness fn with the model in file path and reports whether the target obligation fails.
func RunReplay(t *testing.T, path string, fn func()) {
	b, err := os.ReadFile(path)
	if err != nil {
		t.Fatalf("VERIF-REPLAY: error reading model: %v", err)
	}
	if err := json.Unmarshal(b, &model); err != nil {
		t.Fatalf("VERIF-REPLAY: error parsing model: %v", err)
	}
	var escaped interface{}
	runOnce := func() {
		escaped, failedIDs, assumeFail = nil, nil, false
		defer func() {
			if r := recover(); r != nil {
				switch r.(type) {
				case assertFailed, assumeFailed:
				default:
					escaped = r
				}
			}
		}()
		fn()
	}
	reproduced := func() bool {
		for _, id := range failedIDs {
			if id == model.Obligation {
				return true
			}
		}
		return model.Kind == "nopanic" && escaped != nil
	}
	runOnce()
	if !reproduced() && os.Getenv("VERIF_FUZZ_FLOATS") != "" {
		// the counterexample came from an abstraction of float arithmetic (uninterpreted / relaxed): keep its
		// integer, boolean and string inputs and re-draw the float inputs until a concrete instance fails
		fuzzFloats = rand.New(rand.NewSource(1))
		for i := 0; i < 3000 && !reproduced(); i++ {
			fuzzed = map[string]float64{}
			runOnce()
		}
		if reproduced() {
			fmt.Printf("VERIF-REPLAY: float inputs re-drawn: %v\n", fuzzed)
		}
	}
	hit := false
	for _, id := range failedIDs {
		if id == model.Obligation {
			hit = true
		}
	}
	if model.Kind == "nopanic" && escaped != nil {
		hit = true
	}
	switch {
	case assumeFail && !hit:
		fmt.Printf("VERIF-REPLAY: not-reproduced (model violates a harness assumption natively)\n")
	case hit:
		fmt.Printf("VERIF-REPLAY: reproduced %s (failed=%v panic=%v)\n", model.Obligation, failedIDs, escaped)
	default:
		fmt.Printf("VERIF-REPLAY: not-reproduced %s (failed=%v panic=%v)\n", model.Obligation, failedIDs, escaped)
	}
}

// ---- template structure (native twin of engine/tmpl.go) ----

type tmplUse struct {
	kind   string // "field" (an action rendering something) or "text"
	field  string // first field argument of the action's pipeline ("" if none)
	fn     string // first identifier (function) of the pipeline ("" if none)
	args   []string
	guards []string // enclosing conditions: "+Field" (if-branch), "-Field" (else-branch), "?..." (anything else)
	text   string
}

var tmplCache = map[string][]tmplUse{}

func tmplAnalyse(src string) []tmplUse {
	if u, ok := tmplCache[src]; ok {
		return u
	}
	t := parse.New("t")
	t.Mode = parse.SkipFuncCheck
	tree, err := t.Parse(src, "", "", map[string]*parse.Tree{})
	var out []tmplUse
	if err != nil {
		out = []tmplUse{{kind: "error", text: err.Error()}}
		tmplCache[src] = out
		return out
	}
	var walk func(n parse.Node, guards []string)
	pipeInfo := func(p *parse.PipeNode) (field, fn string, args []string) {
		if p == nil {
			return
		}
		for _, c := range p.Cmds {
			for _, a := range c.Args {
				switch x := a.(type) {
				case *parse.FieldNode:
					name := strings.Join(x.Ident, ".")
					if field == "" {
						field = name
					}
					args = append(args, name)
				case *parse.IdentifierNode:
					if fn == "" {
						fn = x.Ident
					}
				}
			}
		}
		return
	}
	cond := func(p *parse.PipeNode) string {
		if p != nil && len(p.Cmds) == 1 && len(p.Cmds[0].Args) == 1 {
			if f, ok := p.Cmds[0].Args[0].(*parse.FieldNode); ok {
				return strings.Join(f.Ident, ".")
			}
		}
		return ""
	}
	walk = func(n parse.Node, guards []string) {
		switch x := n.(type) {
		case *parse.ListNode:
			if x == nil {
				return
			}
			for _, c := range x.Nodes {
				walk(c, guards)
			}
		case *parse.TextNode:
			out = append(out, tmplUse{kind: "text", text: string(x.Text), guards: append([]string(nil), guards...)})
		case *parse.ActionNode:
			f, fn, args := pipeInfo(x.Pipe)
			out = append(out, tmplUse{kind: "field", field: f, fn: fn, args: args, guards: append([]string(nil), guards...)})
		case *parse.IfNode:
			c := cond(x.Pipe)
			if c == "" {
				c = "?complex"
				walk(x.List, append(append([]string(nil), guards...), c))
				walk(x.ElseList, append(append([]string(nil), guards...), c))
				return
			}
			walk(x.List, append(append([]string(nil), guards...), "+"+c))
			if x.ElseList != nil {
				walk(x.ElseList, append(append([]string(nil), guards...), "-"+c))
			}
		case *parse.RangeNode:
			walk(x.List, append(append([]string(nil), guards...), "?range"))
			walk(x.ElseList, append(append([]string(nil), guards...), "?range"))
		case *parse.WithNode:
			walk(x.List, append(append([]string(nil), guards...), "?with"))
			walk(x.ElseList, append(append([]string(nil), guards...), "?with"))
		}
	}
	walk(tree.Root, nil)
	tmplCache[src] = out
	return out
}

func TmplInt(src, what string, i int) int {
	u := tmplAnalyse(src)
	if what == "n" {
		return len(u)
	}
	if i < 0 || i >= len(u) {
		return 0
	}
	switch what {
	case "nargs":
		return len(u[i].args)
	case "nguards":
		return len(u[i].guards)
	}
	return 0
}

func TmplStr(src, what string, i, k int) string {
	u := tmplAnalyse(src)
	if i < 0 || i >= len(u) {
		return ""
	}
	switch what {
	case "kind":
		return u[i].kind
	case "field":
		return u[i].field
	case "func":
		return u[i].fn
	case "text":
		return u[i].text
	case "arg":
		if k >= 0 && k < len(u[i].args) {
			return u[i].args[k]
		}
	case "guard":
		if k >= 0 && k < len(u[i].guards) {
			return u[i].guards[k]
		}
	}
	return ""
}
