//verif:pkg internal/trigger/api
package api

import (
	"context"
	"time"

	"github.com/form3tech-oss/f1/v2/internal/options"
	"github.com/form3tech-oss/f1/v2/internal/workers"
	zz "github.com/form3tech-oss/f1/v2/internal/zzverif"
)

var (
	c09Triggers []int
	c09Started  int
)

// stand-ins for the worker pool: the pool is the subject of C02-C05; here it records what it is asked to do
func c09NewTriggerPool(_ *workers.PoolManager, n int) *workers.TriggerPool { return &workers.TriggerPool{} }
func c09Start(_ *workers.TriggerPool, ctx context.Context) context.Context {
	c09Started++
	return ctx
}
func c09Trigger(_ *workers.TriggerPool, ctx context.Context, n int) {
	c09Triggers = append(c09Triggers, n)
}

// VerifC09_Cadence: the real tick loop of NewIterationWorker with an arbitrary positive interval, an arbitrary rate
// profile, a ticker driven by the environment (ticks at arbitrary instants) and cancellation at an arbitrary
// moment, for up to 3 received ticks: the rate is evaluated once immediately and then exactly once per RECEIVED
// tick (never without one); every evaluation's value is handed to the pool unchanged and in order, as that tick's
// request; the ticker is created with exactly the configured interval and stopped on exit; nothing is evaluated
// after cancellation has been observed. With the runtime's ticker contract (k-th tick not before creation + k *
// interval) this bounds the evaluations by elapsed time e to 1 + floor(e / interval).
//
//verif:conc
//verif:unroll 3
//verif:ghostlog 1
//verif:timeout 120
//verif:replace (*$M/internal/workers.PoolManager).NewTriggerPool c09NewTriggerPool
//verif:replace (*$M/internal/workers.TriggerPool).Start c09Start
//verif:replace (*$M/internal/workers.TriggerPool).Trigger c09Trigger
//verif:deadlock 1
func VerifC09_Cadence() {
	d := zz.Int64("interval")
	zz.Assume(d > 0)
	var rates []int
	rateFn := func(time.Time) int {
		v := zz.Int("rate", len(rates))
		zz.Assume(v >= 0)
		rates = append(rates, v)
		if len(rates) == 1 {
			// the interval clock starts AFTER the first evaluation: otherwise the second evaluation could follow the
			// first by less than one interval (ticks are counted from the ticker's creation)
			zz.Assert("C09.ticker_armed_after_first_evaluation", zz.GhostLen("time.ticker") == 0)
		}
		// at the moment of every evaluation: one immediate evaluation plus exactly one per tick received so far
		zz.Assert("C09.one_evaluation_per_received_tick", len(rates) == 1+zz.GhostLen("recv.ticker"))
		// and every earlier evaluation has already been handed to the pool
		zz.Assert("C09.previous_value_already_requested", len(c09Triggers) == len(rates)-1)
		return v
	}
	c09Triggers, c09Started = nil, 0
	ctx, cancel := context.WithCancel(context.Background())
	go func() { cancel() }() // cancellation at an arbitrary moment
	w := NewIterationWorker(time.Duration(d), rateFn)
	w(ctx, nil, workers.New(0, nil), options.RunOptions{Concurrency: 1})
	zz.Cover("C09.returned")
	zz.CoverIf("C09.two_ticks", len(rates) == 3)
	zz.Assert("C09.pool_started_once", c09Started == 1)
	zz.Assert("C09.evaluations_equal_requests", len(rates) == len(c09Triggers) && len(rates) >= 1)
	for k := 0; k < len(rates) && k < len(c09Triggers); k++ {
		zz.Assert("C09.value_requested_unchanged_in_order", c09Triggers[k] == rates[k])
	}
	zz.Assert("C09.no_evaluation_without_tick", len(rates) == 1+zz.GhostLen("recv.ticker"))
	zz.Assert("C09.ticker_has_configured_interval", zz.GhostLen("time.ticker") == 1 && zz.GhostInt("time.ticker", 0, 0) == int(d))
	zz.Assert("C09.ticker_stopped_on_exit", zz.GhostLen("time.stop") == 1)
}

// VerifC09_TimeBound: the same loop with REAL elapsed time modelled (the k-th tick of a ticker is delivered no
// earlier than its creation + k * interval; instants are monotone with the schedule), interval 1 s, arbitrary
// scheduling delays of the ticking goroutine, up to 3 received ticks: the k-th evaluation after the first happens at
// least k intervals after the first evaluation, i.e. by elapsed time e at most 1 + floor(e / interval) evaluations.
//
//verif:conc
//verif:unroll 3
//verif:timers real
//verif:timeout 300
//verif:replace (*$M/internal/workers.PoolManager).NewTriggerPool c09NewTriggerPool
//verif:replace (*$M/internal/workers.TriggerPool).Start c09Start
//verif:replace (*$M/internal/workers.TriggerPool).Trigger c09Trigger
func VerifC09_TimeBound() {
	evals := 0
	rateFn := func(time.Time) int {
		zz.Event("eval", evals)
		evals++
		return 1
	}
	c09Triggers, c09Started = nil, 0
	ctx, cancel := context.WithCancel(context.Background())
	go func() { cancel() }()
	w := NewIterationWorker(time.Second, rateFn)
	w(ctx, nil, workers.New(0, nil), options.RunOptions{Concurrency: 1})
	zz.Cover("C09.time.returned")
	for k := 1; k <= 3; k++ {
		zz.CoverIf("C09.time.kth_evaluation", zz.Happened("eval", k))
		zz.Assert("C09.time.at_most_one_evaluation_per_elapsed_interval", !zz.Happened("eval", k) ||
			zz.NotBefore("eval", "eval", 0, k, time.Duration(k)*time.Second))
	}
}
