//verif:pkg internal/workers
package workers

import (
	"errors"
	"time"

	"github.com/form3tech-oss/f1/v2/internal/metrics"
	"github.com/form3tech-oss/f1/v2/internal/progress"
	"github.com/form3tech-oss/f1/v2/internal/xtime"
	zz "github.com/form3tech-oss/f1/v2/internal/zzverif"
	"github.com/form3tech-oss/f1/v2/pkg/f1/scenarios"
	"github.com/form3tech-oss/f1/v2/pkg/f1/testing"
)

// ---- symbolic scenario programs -------------------------------------------------------------

// stand-in for the stage-duration metric written by T.Time (global metrics instance)
func c06RecordTime(_ *testing.T, _ string, _ time.Time) {}

// an error type whose Error method dereferences its receiver: the classic typed-nil pointer stored in an error
// interface is a perfectly legal panic VALUE, and calling Error() on it panics
type c06BrokenErr struct{ msg string }

func (e *c06BrokenErr) Error() string { return e.msg }

// body action opcodes
const (
	opNop          = iota
	opCleanup      // register the next cleanup
	opFail         // t.Fail()
	opError        // t.Error(err)
	opFailNow      // t.FailNow()
	opFatal        // t.Fatal(err)
	opPanicErr     // panic(error value)
	opPanicStr     // panic("string")
	opPanicInt     // panic(42)
	opNilDeref     // runtime error
	opPanicNil     // panic(nil)
	opErrorf       // t.Errorf(...)
	opFatalf       // t.Fatalf(...)
	opTimedFailNow // t.Time(stage, func() { t.FailNow() })
	opTimedPanic   // t.Time(stage, func() { panic(err) })
	opPanicNilErr  // panic(error(nil *T)): an error VALUE whose Error method itself panics (typed-nil pointer)
	numOps
)

// cleanup behaviour opcodes
const (
	clNop = iota
	clFail
	clFailNow
	clPanic
	numCl
)

// ghost event kinds
const (
	evBodyStart   = 1000 + iota
	evBodyEnd            // reached only if nothing stopped the body
	evCleanupBase = 2000 // + iteration*10 + cleanup number
)

type c06World struct {
	log        []int                // totally ordered ghost event log
	recIter    []metrics.ResultType // results handed to the metrics sink
	recIterDur []int64
	bodyClock  [][2]int64 // per iteration: clock at body start / last clock read inside the body
	runStart   []int64    // per iteration: the clock reading taken by Run immediately before the body
	clClock    []int64    // clock read at the start of every cleanup
}

var c06W *c06World

// stand-in for Metrics.RecordIterationResult: the exported-metrics sink as a ghost list (Prometheus is outside)
func c06RecordIteration(_ *metrics.Metrics, _ string, result metrics.ResultType, ns int64) {
	c06W.recIter = append(c06W.recIter, result)
	c06W.recIterDur = append(c06W.recIterDur, ns)
}

var c06Nil *c06World

// runs one iteration body described by ops (symbolic opcodes) on handle t, iteration number it
func c06Body(t *testing.T, it int, nact int, prefix string) {
	w := c06W
	w.log = append(w.log, evBodyStart+it*10000)
	w.runStart = append(w.runStart, zz.ClockAt(zz.ClockLogLen()-1)) // the last reading before the body is Run's start
	start := xtime.NanoTime()
	w.bodyClock = append(w.bodyClock, [2]int64{start, start})
	ncl := 0
	for j := 0; j < nact; j++ {
		op := zz.Int(prefix+"op", it, j)
		zz.Assume(op >= 0)
		zz.Assume(op < numOps)
		w.bodyClock[len(w.bodyClock)-1][1] = xtime.NanoTime()
		switch op {
		case opNop:
		case opCleanup:
			id := evCleanupBase + it*10000 + ncl
			beh := zz.Int(prefix+"cl", it, ncl)
			zz.Assume(beh >= 0)
			zz.Assume(beh < numCl)
			ncl++
			t.Cleanup(func() {
				w.clClock = append(w.clClock, xtime.NanoTime())
				w.log = append(w.log, id)
				switch beh {
				case clFail:
					t.Fail()
				case clFailNow:
					t.FailNow()
				case clPanic:
					panic("cleanup panic")
				}
			})
		case opFail:
			t.Fail()
		case opError:
			t.Error(errors.New("boom"))
		case opFailNow:
			t.FailNow()
		case opFatal:
			t.Fatal(errors.New("fatal"))
		case opPanicErr:
			panic(errors.New("panic with error"))
		case opPanicStr:
			panic("panic with string")
		case opPanicInt:
			panic(42)
		case opNilDeref:
			_ = len(c06Nil.log)
		case opPanicNil:
			var v interface{}
			panic(v)
		case opErrorf:
			t.Errorf("value %d is wrong", 7)
		case opFatalf:
			t.Fatalf("value %d is fatal", 7)
		case opTimedFailNow:
			t.Time("stage", func() { t.FailNow() })
		case opTimedPanic:
			t.Time("stage", func() { panic(errors.New("panic in a timed stage")) })
		case opPanicNilErr:
			var e *c06BrokenErr
			panic(error(e))
		}
	}
	w.log = append(w.log, evBodyEnd+it*10000)
}

// reference semantics of a body: (failed, number of cleanups registered, completed normally)
func c06Expect(it, nact int, prefix string) (failed bool, ncl int, completed bool) {
	for j := 0; j < nact; j++ {
		op := zz.Int(prefix+"op", it, j)
		switch op {
		case opCleanup:
			ncl++
		case opFail, opError, opErrorf:
			failed = true
		case opFailNow, opFatal, opFatalf, opPanicErr, opPanicStr, opPanicInt, opNilDeref, opPanicNil, opTimedFailNow, opTimedPanic, opPanicNilErr:
			return true, ncl, false
		}
	}
	return failed, ncl, true
}

// number of actions of iteration it: the first body is the long one, the second checks the hand-over
func c06Nact(nact, it int) int {
	if it == 0 {
		return nact
	}
	return nact - 1
}

func c06NewScenario(nact int) (*ActiveScenario, *progress.Stats) {
	c06W = &c06World{}
	stats := &progress.Stats{}
	sc := &scenarios.Scenario{Name: "scn"}
	as := NewActiveScenario(sc, &metrics.Metrics{}, stats, nil, nil)
	it := 0
	sc.RunFn = func(t *testing.T) {
		cur := it
		it++
		c06Body(t, cur, c06Nact(nact, cur), "")
	}
	return as, stats
}

// VerifC06_IterationLifecycle: two consecutive iterations on ONE worker handle, each body an arbitrary
// program (first body: 2 actions quick / 3 thorough; second body one action fewer) (16 opcodes: register a cleanup with one of 4 behaviours, Fail, Error, FailNow, Fatal,
// panic with error/string/int/nil, nil dereference), through the real ActiveScenario.Run, T.Reset, T.teardown,
// CheckResults and handlePanic:
//   - Run always returns normally (C07: no panic escapes to the worker)
//   - every registered cleanup runs exactly once, in reverse registration order, after the body's last event and
//     before the next iteration's body starts; also when the body fails/panics; a failing or panicking cleanup
//     does not stop the remaining ones; cleanups of iteration 1 never run again in iteration 2
//   - the iteration is reported failed (to BOTH sinks, identically) iff the body failed or panicked (C07, C01)
//   - at entry of the next body the handle is clean: not failed, teardown not failed, empty cleanup stack
//   - the recorded duration spans at least the body's own clock interval and ends before the first cleanup (C17)
//
//verif:replace (*$M/internal/metrics.Metrics).RecordIterationResult c06RecordIteration
//verif:replace $M/pkg/f1/testing.recordTime c06RecordTime
//verif:noreplay the metrics sink is replaced by a ghost list and the monotonic clock is a nondeterministic stub
//verif:unroll 40
func VerifC06_IterationLifecycle() { c06IterationLifecycle() }

// VerifC16_IterationSamples: the same harness under C16: exactly one observation per iteration is handed to the
// exported-metrics sink, carrying the very classification the progress statistics received.
//
//verif:replace (*$M/internal/metrics.Metrics).RecordIterationResult c06RecordIteration
//verif:replace $M/pkg/f1/testing.recordTime c06RecordTime
//verif:noreplay the metrics sink is replaced by a ghost list and the monotonic clock is a nondeterministic stub
//verif:unroll 40
func VerifC16_IterationSamples() { c06IterationLifecycle() }

// VerifC17_DurationMeasured: the same harness under C17: the duration handed to both sinks is taken from clock
// readings immediately around the recovered body: it covers the body's own clock interval, starts after the
// handle was reset (no queueing time) and ends before the first cleanup starts.
//
//verif:replace (*$M/internal/metrics.Metrics).RecordIterationResult c06RecordIteration
//verif:replace $M/pkg/f1/testing.recordTime c06RecordTime
//verif:noreplay the metrics sink is replaced by a ghost list and the monotonic clock is a nondeterministic stub
//verif:unroll 40
func VerifC17_DurationMeasured() { c06IterationLifecycle() }

func c06IterationLifecycle() {
	nact := 2
	if zz.Thorough() {
		nact = 3
	}
	as, stats := c06NewScenario(nact)
	state := as.newIterationState()
	for it := 0; it < 2; it++ {
		state.t.Reset("7")
		zz.Assert("C07.clean_at_entry", !state.t.Failed() && !state.t.TeardownFailed() && zz.FieldLen(state.t, "teardownStack") == 0)
		before := len(c06W.log)
		clBefore := len(c06W.clClock)
		as.Run(state)
		failed, ncl, completed := c06Expect(it, c06Nact(nact, it), "")
		// --- event order of this iteration: bodyStart [bodyEnd] cleanup(ncl-1) ... cleanup(0)
		evs := c06W.log[before:]
		want := 1 + ncl
		if completed {
			want++
		}
		zz.Assert("C06.iter.event_count", len(evs) == want)
		if len(evs) != want {
			return
		}
		zz.Assert("C06.iter.body_first", evs[0] == evBodyStart+it*10000)
		k := 1
		if completed {
			zz.Assert("C06.iter.body_end_before_cleanups", evs[1] == evBodyEnd+it*10000)
			k = 2
		}
		for c := 0; c < ncl; c++ {
			zz.Assert("C06.iter.cleanups_lifo_exactly_once", evs[k+c] == evCleanupBase+it*10000+(ncl-1-c))
		}
		// --- classification, identical in both sinks
		zz.Assert("C07.result_recorded_once", len(c06W.recIter) == it+1)
		wantRes := metrics.SuccessResult
		if failed {
			wantRes = metrics.FailedResult
		}
		zz.Assert("C07.failed_iff_body_failed_or_panicked", c06W.recIter[it] == wantRes)
		// --- duration
		d := c06W.recIterDur[it]
		bc := c06W.bodyClock[it]
		zz.Assert("C17.duration_covers_body", d >= bc[1]-bc[0])
		zz.Assert("C17.duration_excludes_queueing", c06W.runStart[it] <= bc[0]) // measured from a reading taken after Reset, right before the body
		if ncl > 0 {
			zz.Assert("C17.duration_excludes_cleanups", c06W.runStart[it]+d <= c06W.clClock[clBefore])
		}
		zz.CoverIf("C06.iter.panicked_with_cleanups", !completed && ncl > 0)
		zz.CoverIf("C06.iter.passed", !failed)
	}
	tot := stats.Total()
	f0, _, _ := c06Expect(0, c06Nact(nact, 0), "")
	f1, _, _ := c06Expect(1, c06Nact(nact, 1), "")
	nf := uint64(0)
	if f0 {
		nf++
	}
	if f1 {
		nf++
	}
	zz.Cover("C06.iter.done")
	zz.Assert("C01.progress_counts_match_outcomes", tot.FailedIterationDurations.Count == nf && tot.SuccessfulIterationDurations.Count == 2-nf)
}

// VerifC07_Containment: two (quick) / three (thorough) consecutive iterations on ONE worker handle, each body a single arbitrary action
// (16 opcodes incl. every failure API and panics with error / string / int / nil / runtime error / an error value whose Error method panics), optionally
// preceded by registering a cleanup with arbitrary behaviour (nop / Fail / FailNow / panic): Run returns normally
// every time (the worker survives), each iteration is reported by its OWN outcome to both sinks, a failure raised
// inside a cleanup neither marks the iteration failed nor leaks into the next one, and every body starts with a
// clean handle. A body may additionally fail the scenario-level handle it captured at setup: that never changes how
// this or any later iteration is reported.
//
//verif:replace (*$M/internal/metrics.Metrics).RecordIterationResult c06RecordIteration
//verif:replace $M/pkg/f1/testing.recordTime c06RecordTime
//verif:noreplay the metrics sink is replaced by a ghost list and the monotonic clock is a nondeterministic stub
//verif:unroll 40
func VerifC07_Containment() {
	c06W = &c06World{}
	stats := &progress.Stats{}
	sc := &scenarios.Scenario{Name: "scn"}
	as := NewActiveScenario(sc, &metrics.Metrics{}, stats, nil, nil)
	cur := 0
	entryClean := true
	var state *iterationState
	sc.RunFn = func(t *testing.T) {
		if t.Failed() || t.TeardownFailed() {
			entryClean = false
		}
		withCleanup := zz.Bool("withCleanup", cur)
		if withCleanup {
			beh := zz.Int("c7cl", cur)
			zz.Assume(beh >= 0)
			zz.Assume(beh < numCl)
			t.Cleanup(func() {
				switch beh {
				case clFail:
					t.Fail()
				case clFailNow:
					t.FailNow()
				case clPanic:
					panic("cleanup panic")
				}
			})
		}
		if zz.Bool("outerFail", cur) {
			// the body marks a failure on the SCENARIO-level handle (the T the scenario function captured at setup),
			// not on its own iteration handle: this iteration's own outcome is unaffected, and no later iteration
			// may be reported failed because of it
			as.t.Fail()
		}
		c06Body(t, cur, 1, "c7")
	}
	state = as.newIterationState()
	nf := uint64(0)
	iters := 2
	if zz.Thorough() {
		iters = 3
	}
	for it := 0; it < iters; it++ {
		cur = it
		state.t.Reset("9")
		as.Run(state) // a panic escaping Run would end this path with a reachable-panic obligation
		failed, _, _ := c06Expect(it, 1, "c7")
		if failed {
			nf++
		}
		want := metrics.SuccessResult
		if failed {
			want = metrics.FailedResult
		}
		zz.Assert("C07.seq.reported_by_own_outcome", len(c06W.recIter) == it+1 && c06W.recIter[it] == want)
	}
	tot := stats.Total()
	zz.Cover("C07.seq.done")
	zz.CoverIf("C07.seq.mixed_outcomes", nf == 1)
	zz.CoverIf("C07.seq.scenario_level_handle_failed_by_first_body", zz.Bool("outerFail", 0) && nf == 0)
	zz.Assert("C07.seq.entry_clean", entryClean)
	zz.Assert("C07.seq.progress_counts", tot.FailedIterationDurations.Count == nf && tot.SuccessfulIterationDurations.Count == uint64(iters)-nf)
}
