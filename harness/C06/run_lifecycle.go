//verif:pkg internal/run
package run

import (
	"context"
	"errors"

	"github.com/form3tech-oss/f1/v2/internal/metrics"
	"github.com/form3tech-oss/f1/v2/internal/options"
	"github.com/form3tech-oss/f1/v2/internal/progress"
	"github.com/form3tech-oss/f1/v2/internal/raterun"
	"github.com/form3tech-oss/f1/v2/internal/run/views"
	"github.com/form3tech-oss/f1/v2/internal/trigger/api"
	"github.com/form3tech-oss/f1/v2/internal/ui"
	"github.com/form3tech-oss/f1/v2/internal/workers"
	zz "github.com/form3tech-oss/f1/v2/internal/zzverif"
	"github.com/form3tech-oss/f1/v2/pkg/f1/scenarios"
	"github.com/form3tech-oss/f1/v2/pkg/f1/testing"
)

// ghost events of a whole run, in program order
const (
	rlMetricsReset = iota + 1
	rlSetupStart
	rlSetupEnd
	rlSetupSample // + 100*failed
	rlRunEnter
	rlRunExit
	rlProgressStart
	rlProgressStop
	rlCleanup0
	rlCleanup1
	rlTotals
)

var rlLog []int
var rlSetupSampleFailed bool

func rlMetricsResetFn(_ *metrics.Metrics)                    { rlLog = append(rlLog, rlMetricsReset) }
func rlProgressStartFn(_ *raterun.Runner, _ context.Context) { rlLog = append(rlLog, rlProgressStart) }
func rlProgressStopFn(_ *raterun.Runner)                     { rlLog = append(rlLog, rlProgressStop) }
func rlRecordSetup(_ *metrics.Metrics, _ string, result metrics.ResultType, _ int64) {
	rlLog = append(rlLog, rlSetupSample)
	rlSetupSampleFailed = result == metrics.FailedResult
}

func rlGetTotals(r *Result) {
	rlLog = append(rlLog, rlTotals)
	r.mu.Lock()
	defer r.mu.Unlock()
	r.snapshot = r.progressStats.Total()
}

// stand-in for Run.run: the triggering phase as one opaque interval (its inside is C05/C02/C04)
func rlRunFn(r *Run, _ context.Context) {
	rlLog = append(rlLog, rlRunEnter)
	rlLog = append(rlLog, rlRunExit)
}

func rlIndex(ev int) int {
	for i, e := range rlLog {
		if e == ev {
			return i
		}
	}
	return -1
}

func rlCount(ev int) int {
	n := 0
	for _, e := range rlLog {
		if e == ev {
			n++
		}
	}
	return n
}

// VerifC06_RunLifecycle: the real Run.Do with an ARBITRARY setup program (registers 0..2 cleanups with arbitrary
// behaviour; then passes, Fails, FailNows or panics) and the triggering phase replaced by an opaque interval:
//   - metrics are reset before setup; setup runs exactly once; exactly one setup sample, labelled with the setup
//     outcome - also when setup panics (C16)
//   - setup failed or panicked: the triggering phase is never entered, the run is reported failed, setup cleanups
//     still run exactly once in reverse order
//   - otherwise the progress reporter is started before and stopped after the triggering phase and before totals
//   - on every path the setup cleanups run after the triggering phase returned and before Do returns, also with an
//     already-cancelled caller context; a Fail/FailNow/panic inside a setup cleanup fails the run
//
//verif:replace (*$M/internal/metrics.Metrics).Reset rlMetricsResetFn
//verif:replace (*$M/internal/metrics.Metrics).RecordSetupResult rlRecordSetup
//verif:replace (*$M/internal/raterun.Runner).Start rlProgressStartFn
//verif:replace (*$M/internal/raterun.Runner).Stop rlProgressStopFn
//verif:replace (*$M/internal/run.Run).run rlRunFn
//verif:replace (*$M/internal/run.Result).GetTotals rlGetTotals
//verif:go ignore
//verif:noreplay metrics, progress reporter and triggering phase are replaced by ghost stand-ins
//verif:unroll 40
func VerifC06_RunLifecycle() { rlLifecycle() }

// VerifC16_RunMetrics: the same harness under C16: metrics of earlier runs are reset before setup, and exactly one
// setup sample labelled with the setup outcome is recorded, also when setup panics.
//
//verif:replace (*$M/internal/metrics.Metrics).Reset rlMetricsResetFn
//verif:replace (*$M/internal/metrics.Metrics).RecordSetupResult rlRecordSetup
//verif:replace (*$M/internal/raterun.Runner).Start rlProgressStartFn
//verif:replace (*$M/internal/raterun.Runner).Stop rlProgressStopFn
//verif:replace (*$M/internal/run.Run).run rlRunFn
//verif:replace (*$M/internal/run.Result).GetTotals rlGetTotals
//verif:go ignore
//verif:noreplay metrics, progress reporter and triggering phase are replaced by ghost stand-ins
//verif:unroll 40
func VerifC16_RunMetrics() { rlLifecycle() }

// VerifC05_ShutdownOrder: the same harness under C05: the progress reporter is stopped after the triggering phase
// and before the final totals are taken; setup cleanups and the summary come after that.
//
//verif:replace (*$M/internal/metrics.Metrics).Reset rlMetricsResetFn
//verif:replace (*$M/internal/metrics.Metrics).RecordSetupResult rlRecordSetup
//verif:replace (*$M/internal/raterun.Runner).Start rlProgressStartFn
//verif:replace (*$M/internal/raterun.Runner).Stop rlProgressStopFn
//verif:replace (*$M/internal/run.Run).run rlRunFn
//verif:replace (*$M/internal/run.Result).GetTotals rlGetTotals
//verif:go ignore
//verif:noreplay metrics, progress reporter and triggering phase are replaced by ghost stand-ins
//verif:unroll 40
func VerifC05_ShutdownOrder() { rlLifecycle() }

func rlLifecycle() {
	rlLog = nil
	ncl := zz.Choice("ncl", 3)
	setupBeh := zz.Int("setupBeh")
	zz.Assume(setupBeh >= 0)
	zz.Assume(setupBeh <= 3) // 0 pass, 1 Fail, 2 FailNow, 3 panic
	clBeh := [2]int{zz.Int("clBeh", 0), zz.Int("clBeh", 1)}
	for i := 0; i < 2; i++ {
		zz.Assume(clBeh[i] >= 0)
		zz.Assume(clBeh[i] <= 3)
	}
	sc := &scenarios.Scenario{Name: "scn"}
	sc.ScenarioFn = func(t *testing.T) testing.RunFn {
		rlLog = append(rlLog, rlSetupStart)
		for i := 0; i < ncl; i++ {
			i := i
			t.Cleanup(func() {
				rlLog = append(rlLog, rlCleanup0+i)
				switch clBeh[i] {
				case 1:
					t.Fail()
				case 2:
					t.FailNow()
				case 3:
					panic("setup cleanup panic")
				}
			})
		}
		switch setupBeh {
		case 1:
			t.Fail()
		case 2:
			t.FailNow()
		case 3:
			panic(errors.New("setup panic"))
		}
		rlLog = append(rlLog, rlSetupEnd)
		return func(*testing.T) {}
	}
	stats := &progress.Stats{}
	vw := &views.Views{}
	opts := options.RunOptions{Scenario: "scn"}
	r := &Run{
		options: opts, trigger: &api.Trigger{}, metrics: &metrics.Metrics{}, views: vw,
		result: NewResult(opts, vw, stats), output: &ui.Output{}, progressRunner: &raterun.Runner{},
		activeScenario: workers.NewActiveScenario(sc, &metrics.Metrics{}, stats, nil, nil),
		scenarioLogger: &ScenarioLogger{},
	}
	ctx, cancel := context.WithCancel(context.Background())
	if zz.Bool("cancelledBefore") {
		cancel()
	}
	res, err := r.Do(ctx)
	cancel()
	setupFailed := setupBeh != 0
	zz.Cover("C06.run.done")
	zz.CoverIf("C06.run.setup_panics_with_cleanups", setupBeh == 3 && ncl == 2)
	zz.Assert("C06.run.returns_result", err == nil && res == r.result)
	zz.Assert("C16.run.reset_before_setup", rlCount(rlMetricsReset) == 1 && rlIndex(rlMetricsReset) < rlIndex(rlSetupStart))
	zz.Assert("C06.run.setup_exactly_once", rlCount(rlSetupStart) == 1)
	zz.Assert("C16.run.one_setup_sample_with_outcome", rlCount(rlSetupSample) == 1 && rlSetupSampleFailed == setupFailed &&
		rlIndex(rlSetupSample) > rlIndex(rlSetupStart))
	if setupFailed {
		zz.Assert("C06.run.no_triggering_after_failed_setup", rlCount(rlRunEnter) == 0 && rlCount(rlProgressStart) == 0)
		zz.Assert("C06.run.failed_setup_fails_run", res.Failed() && res.Error() != nil)
	} else {
		zz.Assert("C06.run.triggering_once_after_setup", rlCount(rlRunEnter) == 1 && rlIndex(rlRunEnter) > rlIndex(rlSetupEnd))
		zz.Assert("C05.run.progress_started_before_stopped_after", rlIndex(rlProgressStart) < rlIndex(rlRunEnter) &&
			rlIndex(rlProgressStop) > rlIndex(rlRunExit) && rlCount(rlProgressStop) == 1)
		zz.Assert("C05.run.totals_taken_once_after_progress_stopped", rlCount(rlTotals) == 1 && rlIndex(rlTotals) > rlIndex(rlProgressStop))
	}
	// cleanups: exactly once each, reverse order, after the triggering phase, before Do returned (they are in the log)
	for i := 0; i < ncl; i++ {
		zz.Assert("C06.run.setup_cleanup_exactly_once", rlCount(rlCleanup0+i) == 1)
		if !setupFailed {
			zz.Assert("C06.run.setup_cleanup_after_triggering", rlIndex(rlCleanup0+i) > rlIndex(rlRunExit) && rlIndex(rlCleanup0+i) > rlIndex(rlProgressStop))
		}
	}
	if ncl == 2 {
		zz.Assert("C06.run.setup_cleanups_lifo", rlIndex(rlCleanup0+1) < rlIndex(rlCleanup0))
	}
	cleanupFailed := false
	for i := 0; i < ncl; i++ {
		if clBeh[i] != 0 {
			cleanupFailed = true
		}
	}
	zz.Assert("C06.run.failing_setup_cleanup_fails_run", !cleanupFailed || res.Failed())
	zz.Assert("C06.run.clean_run_passes", setupFailed || cleanupFailed || !res.Failed())
}
