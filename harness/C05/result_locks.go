//verif:pkg internal/run
package run

import (
	"sync"
	"time"

	"github.com/form3tech-oss/f1/v2/internal/options"
	"github.com/form3tech-oss/f1/v2/internal/progress"
	"github.com/form3tech-oss/f1/v2/internal/run/views"
	zz "github.com/form3tech-oss/f1/v2/internal/zzverif"
)

// VerifC05_ResultLocksNeverWedge: the run's Result is shared between the progress reporter (every tick:
// SnapshotProgress - a WRITE lock - then Progress) and the run goroutine (RecordStarted, then whichever of
// Interrupted / MaxDurationElapsed / MaxIterationsReached ends the triggering phase, then RecordTestFinished - a
// WRITE lock). sync.RWMutex prefers writers: a read lock taken again while one is held deadlocks against a writer
// that arrived in between. DEADLOCK query over all interleavings (two reporter ticks): no reachable state in which
// the reporter and the run block each other forever - the shutdown of a run always gets past the reporter.
//
//verif:conc
//verif:deadlock 1
//verif:timeout 300
func VerifC05_ResultLocksNeverWedge() {
	opts := options.RunOptions{Scenario: "scn", MaxDuration: time.Second}
	vw := &views.Views{}
	r := NewResult(opts, vw, &progress.Stats{})
	r.RecordStarted()
	var wg sync.WaitGroup
	wg.Add(1)
	go func() { // the progress reporter
		defer wg.Done()
		for i := 0; i < 2; i++ {
			r.SnapshotProgress(time.Second)
			_ = r.Progress()
		}
	}()
	switch zz.Choice("ending", 3) {
	case 0:
		_ = r.Interrupted()
	case 1:
		_ = r.MaxDurationElapsed()
	default:
		_ = r.MaxIterationsReached()
	}
	_ = r.HasDroppedIterations()
	r.RecordTestFinished()
	wg.Wait()
	r.GetTotals()
	zz.Cover("C05.locks.done")
	zz.Assert("C05.locks.test_duration_recorded", r.TestDuration >= 0)
}
