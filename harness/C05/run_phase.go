//verif:pkg internal/run
package run

import (
	"context"
	"time"

	"github.com/form3tech-oss/f1/v2/internal/metrics"
	"github.com/form3tech-oss/f1/v2/internal/options"
	"github.com/form3tech-oss/f1/v2/internal/progress"
	"github.com/form3tech-oss/f1/v2/internal/raterun"
	"github.com/form3tech-oss/f1/v2/internal/run/views"
	"github.com/form3tech-oss/f1/v2/internal/trigger/api"
	"github.com/form3tech-oss/f1/v2/internal/trigger/users"
	"github.com/form3tech-oss/f1/v2/internal/ui"
	"github.com/form3tech-oss/f1/v2/internal/workers"
	zz "github.com/form3tech-oss/f1/v2/internal/zzverif"
	"github.com/form3tech-oss/f1/v2/pkg/f1/scenarios"
	f1testing "github.com/form3tech-oss/f1/v2/pkg/f1/testing"
)

var c05TriggerCalls int
var c05Restarts int

func c05RestartFn(_ *raterun.Runner) { c05Restarts++ }

// VerifC05_TriggeringPhase: the real Run.run (select over caller cancellation / trigger deadline / pool
// completion, then the bounded wait) with ARBITRARY max-duration and trigger duration, a trigger that returns
// immediately, an empty pool, and caller cancellation at an arbitrary moment:
//   - the trigger is invoked exactly once, with a context whose deadline is min(max-duration, trigger duration if
//     positive and smaller) minus the 10 ms guard, derived from the caller's context
//   - run returns on every path (no schedule leaves it blocked: pool completion, the deadline and the completion
//     timeout are all possible wake-ups) and the trigger context is cancelled when it returns
//
//verif:conc
//verif:ghostlog 1
//verif:timeout 120
//verif:replace (*$M/internal/raterun.Runner).Restart c05RestartFn
//verif:deadlock 1
func VerifC05_TriggeringPhase() {
	md, td := zz.Int64("maxDuration"), zz.Int64("triggerDuration")
	zz.Assume(md > int64(20*time.Millisecond))
	zz.Assume(md < 1<<50)
	zz.Assume(td >= 0)
	zz.Assume(td < 1<<50)
	c05TriggerCalls, c05Restarts = 0, 0
	var seenCtx context.Context
	trig := &api.Trigger{Duration: time.Duration(td), Trigger: func(ctx context.Context, _ *ui.Output, pm *workers.PoolManager, _ options.RunOptions) {
		c05TriggerCalls++
		seenCtx = ctx
	}}
	opts := options.RunOptions{Scenario: "scn", MaxDuration: time.Duration(md)}
	vw := &views.Views{}
	r := &Run{options: opts, trigger: trig, views: vw, result: NewResult(opts, vw, &progress.Stats{}), output: &ui.Output{},
		progressRunner: &raterun.Runner{}, waitForCompletionTimeout: 10 * time.Second}
	ctx, cancel := context.WithCancel(context.Background())
	go func() {
		if zz.Bool("callerCancels") {
			cancel()
		}
	}()
	r.run(ctx)
	want := md
	if td > 0 && td < md {
		want = td
	}
	zz.Cover("C05.phase.returned")
	zz.Assert("C05.phase.trigger_invoked_once", c05TriggerCalls == 1)
	// the FIRST timeout context run creates is the trigger context (a run may create further ones, e.g. to bound
	// the completion wait: their number is not part of the property)
	zz.Assert("C05.phase.deadline_is_min_duration_minus_guard", zz.GhostLen("ctx.timeout") >= 1 &&
		zz.GhostInt("ctx.timeout", 0, 0) == int(want-int64(10*time.Millisecond)))
	zz.Assert("C05.phase.trigger_context_cancelled_on_return", seenCtx != nil && seenCtx.Err() != nil)
	zz.Assert("C05.phase.test_duration_recorded", r.result.TestDuration >= 0)
}

// VerifC05_UsersModeBoundedWait: the real Run.run with the real USERS trigger (users.NewWorker, one user, real
// continuous pool) and an iteration that does not finish until after the run has returned (it waits for a release the
// harness gives only once run is back: "iteration blocking pattern"), ARBITRARY max-duration, caller cancellation at
// any moment, the completion timer free to fire: run must return on every schedule - the wait for in-flight
// iterations is bounded by the completion timeout in users mode as in every other mode. Decided by the deadlock
// query: a reachable state in which the run is still waiting and nothing can move is a violation.
//
//verif:conc
//verif:unroll 2
//verif:timeout 300
//verif:replace (*$M/internal/raterun.Runner).Restart c05RestartFn
//verif:deadlock 1
func VerifC05_UsersModeBoundedWait() {
	md := zz.Int64("maxDuration")
	zz.Assume(md > int64(20*time.Millisecond))
	zz.Assume(md < 1<<50)
	release := make(chan struct{})
	sc := &scenarios.Scenario{Name: "scn"}
	sc.RunFn = func(*f1testing.T) {
		zz.Event("iteration.begin")
		<-release
	}
	as := workers.NewActiveScenario(sc, &metrics.Metrics{}, &progress.Stats{}, nil, nil)
	trig := &api.Trigger{Trigger: users.NewWorker(1)}
	opts := options.RunOptions{Scenario: "scn", MaxDuration: time.Duration(md), Concurrency: 1}
	vw := &views.Views{}
	r := &Run{options: opts, trigger: trig, views: vw, result: NewResult(opts, vw, &progress.Stats{}), output: &ui.Output{},
		activeScenario: as, progressRunner: &raterun.Runner{}, waitForCompletionTimeout: 10 * time.Second}
	ctx, cancel := context.WithCancel(context.Background())
	go func() {
		if zz.Bool("callerCancels") {
			cancel()
		}
	}()
	r.run(ctx)
	zz.Event("run.returned")
	zz.Cover("C05.users.run_returned")
	// (no witness "returned with an iteration in flight": on the unchanged tree that is unreachable - it is exactly
	// what the recorded finding says; the deadlock query above is the obligation)
	close(release)
	cancel()
}

// VerifC05_RateModeBoundedWaitAfterLimit: the real Run.run with the real rate-mode trigger (api.NewIterationWorker,
// real trigger pool, two workers), max-iterations 1 and a first tick requesting two iterations: one worker starts
// iteration 1, which does not finish until after the run has returned; the other is refused by the limit and stops
// the pool, so the trigger returns with "max iterations reached" while an iteration is still in flight. ARBITRARY
// max-duration, caller cancellation at any moment: run returns on every schedule (the deadline or the cancellation
// leads to the wait bounded by the completion timeout) - decided by the deadlock query.
//
//verif:conc
//verif:unroll 2
//verif:timeout 300
//verif:horizon 3600000000000
//verif:replace (*$M/internal/raterun.Runner).Restart c05RestartFn
//verif:deadlock 1
func VerifC05_RateModeBoundedWaitAfterLimit() {
	md := zz.Int64("maxDuration")
	zz.Assume(md > int64(20*time.Millisecond))
	zz.Assume(md < int64(30*time.Minute))
	release := make(chan struct{})
	sc := &scenarios.Scenario{Name: "scn"}
	sc.RunFn = func(*f1testing.T) {
		zz.Event("iteration.begin", zz.ThreadID())
		<-release
	}
	as := workers.NewActiveScenario(sc, &metrics.Metrics{}, &progress.Stats{}, nil, nil)
	trig := &api.Trigger{Trigger: api.NewIterationWorker(time.Hour, func(time.Time) int { return 2 })}
	opts := options.RunOptions{Scenario: "scn", MaxDuration: time.Duration(md), Concurrency: 2, MaxIterations: 1}
	vw := &views.Views{}
	r := &Run{options: opts, trigger: trig, views: vw, result: NewResult(opts, vw, &progress.Stats{}), output: &ui.Output{},
		activeScenario: as, progressRunner: &raterun.Runner{}, waitForCompletionTimeout: 10 * time.Second}
	ctx, cancel := context.WithCancel(context.Background())
	go func() {
		if zz.Bool("callerCancels") {
			cancel()
		}
	}()
	r.run(ctx)
	zz.Event("run.returned")
	zz.Cover("C05.ratelimit.run_returned")
	close(release)
	cancel()
}

// VerifC06_NoTeardownWhileAnIterationRuns: "setup cleanups run after every started iteration has finished (or the
// completion timeout expired), whatever ended the run" at the level of Run.run (Run.Do tears the scenario down when
// run returns): the real rate-mode trigger and trigger pool with one worker and one requested iteration that ends at
// an ARBITRARY moment (released by a helper goroutine), a completion timeout beyond the modelled horizon (it cannot
// expire: 2 h against a run shorter than 1 h), ARBITRARY max-duration, caller cancellation at any moment: whenever
// run returns, the started iteration has ended before - whatever ended the triggering (deadline, cancellation,
// completion). Also registered under C05 ("if it returns without that timeout expiring, every started iteration
// has finished").
//
//verif:conc
//verif:unroll 2
//verif:timeout 300
//verif:horizon 3600000000000
//verif:replace (*$M/internal/raterun.Runner).Restart c05RestartFn
//verif:deadlock 1
func VerifC06_NoTeardownWhileAnIterationRuns() {
	md := zz.Int64("maxDuration")
	zz.Assume(md > int64(20*time.Millisecond))
	zz.Assume(md < int64(30*time.Minute))
	release := make(chan struct{})
	sc := &scenarios.Scenario{Name: "scn"}
	sc.RunFn = func(*f1testing.T) {
		zz.Event("iteration.begin")
		<-release
		zz.Event("iteration.end")
	}
	as := workers.NewActiveScenario(sc, &metrics.Metrics{}, &progress.Stats{}, nil, nil)
	trig := &api.Trigger{Trigger: api.NewIterationWorker(time.Hour, func(time.Time) int { return 1 })}
	opts := options.RunOptions{Scenario: "scn", MaxDuration: time.Duration(md), Concurrency: 1}
	vw := &views.Views{}
	r := &Run{options: opts, trigger: trig, views: vw, result: NewResult(opts, vw, &progress.Stats{}), output: &ui.Output{},
		activeScenario: as, progressRunner: &raterun.Runner{}, waitForCompletionTimeout: 2 * time.Hour}
	ctx, cancel := context.WithCancel(context.Background())
	go func() {
		if zz.Bool("callerCancels") {
			cancel()
		}
	}()
	go func() { close(release) }() // the iteration ends at an arbitrary moment
	r.run(ctx)
	zz.Event("run.returned")
	zz.Cover("C06.inflight.run_returned")
	zz.CoverIf("C06.inflight.iteration_ran", zz.Happened("iteration.begin"))
	zz.Assert("C06.inflight.no_return_while_a_started_iteration_is_running",
		!zz.Happened("iteration.begin") || (zz.Happened("iteration.end") && zz.Before("iteration.end", "run.returned", 0, 0)))
	cancel()
}

// VerifC05_NoReturnWhileAnIterationRuns: the harness above under C05.
//
//verif:conc
//verif:unroll 2
//verif:timeout 300
//verif:horizon 3600000000000
//verif:replace (*$M/internal/raterun.Runner).Restart c05RestartFn
//verif:deadlock 1
func VerifC05_NoReturnWhileAnIterationRuns() { VerifC06_NoTeardownWhileAnIterationRuns() }
