//verif:pkg internal/run
package run

import (
	"context"
	"time"

	"github.com/form3tech-oss/f1/v2/internal/options"
	"github.com/form3tech-oss/f1/v2/internal/progress"
	"github.com/form3tech-oss/f1/v2/internal/raterun"
	"github.com/form3tech-oss/f1/v2/internal/run/views"
	"github.com/form3tech-oss/f1/v2/internal/trigger/api"
	"github.com/form3tech-oss/f1/v2/internal/ui"
	"github.com/form3tech-oss/f1/v2/internal/workers"
	zz "github.com/form3tech-oss/f1/v2/internal/zzverif"
)

var c05TriggerCalls int
var c05Restarts int

func c05RestartFn(_ *raterun.Runner) { c05Restarts++ }

// VerifC05_TriggeringPhase: the real Run.run (select over caller cancellation / trigger deadline / pool
// completion, then the bounded wait) with ARBITRARY max-duration and trigger duration, a trigger that returns
// immediately, an empty pool, and caller cancellation at an arbitrary moment:
//   - the trigger is invoked exactly once, with a context whose deadline is min(max-duration, trigger duration if
//     positive and smaller) minus the 10 ms guard, derived from the caller's context
//   - run returns on every path (no schedule leaves it blocked: pool completion, the deadline and the completion
//     timeout are all possible wake-ups) and the trigger context is cancelled when it returns
//
//verif:conc
//verif:ghostlog 1
//verif:timeout 120
//verif:replace (*$M/internal/raterun.Runner).Restart c05RestartFn
//verif:deadlock 1
func VerifC05_TriggeringPhase() {
	md, td := zz.Int64("maxDuration"), zz.Int64("triggerDuration")
	zz.Assume(md > int64(20*time.Millisecond))
	zz.Assume(md < 1<<50)
	zz.Assume(td >= 0)
	zz.Assume(td < 1<<50)
	c05TriggerCalls, c05Restarts = 0, 0
	var seenCtx context.Context
	trig := &api.Trigger{Duration: time.Duration(td), Trigger: func(ctx context.Context, _ *ui.Output, pm *workers.PoolManager, _ options.RunOptions) {
		c05TriggerCalls++
		seenCtx = ctx
	}}
	opts := options.RunOptions{Scenario: "scn", MaxDuration: time.Duration(md)}
	vw := &views.Views{}
	r := &Run{options: opts, trigger: trig, views: vw, result: NewResult(opts, vw, &progress.Stats{}), output: &ui.Output{},
		progressRunner: &raterun.Runner{}, waitForCompletionTimeout: 10 * time.Second}
	ctx, cancel := context.WithCancel(context.Background())
	go func() {
		if zz.Bool("callerCancels") {
			cancel()
		}
	}()
	r.run(ctx)
	want := md
	if td > 0 && td < md {
		want = td
	}
	zz.Cover("C05.phase.returned")
	zz.Assert("C05.phase.trigger_invoked_once", c05TriggerCalls == 1)
	zz.Assert("C05.phase.deadline_is_min_duration_minus_guard", zz.GhostLen("ctx.timeout") == 1 &&
		zz.GhostInt("ctx.timeout", 0, 0) == int(want-int64(10*time.Millisecond)))
	zz.Assert("C05.phase.trigger_context_cancelled_on_return", seenCtx != nil && seenCtx.Err() != nil)
	zz.Assert("C05.phase.test_duration_recorded", r.result.TestDuration >= 0)
}
