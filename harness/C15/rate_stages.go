//verif:pkg internal/trigger/file
package file

import (
	"context"
	"os"
	"sync/atomic"
	"time"

	"github.com/form3tech-oss/f1/v2/internal/options"
	"github.com/form3tech-oss/f1/v2/internal/workers"
	zz "github.com/form3tech-oss/f1/v2/internal/zzverif"
)

var (
	c15rTriggersA atomic.Int64 // trigger requests issued while exactly stage 1's parameters were exported
	c15rTriggersB atomic.Int64
	c15rBad       atomic.Int64 // trigger requests issued with both / neither parameter set
	c15rAAfterB   atomic.Int64 // a stage-1 request after a stage-2 request
	c15rPools     atomic.Int64
)

// stand-ins for the trigger pool (its behaviour is the subject of C02-C05): every request records which stage
// parameters are exported at that moment
func c15rNewTriggerPool(_ *workers.PoolManager, n int) *workers.TriggerPool {
	c15rPools.Add(1)
	return &workers.TriggerPool{}
}
func c15rStart(_ *workers.TriggerPool, ctx context.Context) context.Context { return ctx }
func c15rTrigger(_ *workers.TriggerPool, ctx context.Context, n int) {
	a, b := os.Getenv("STAGE_A"), os.Getenv("STAGE_B")
	switch {
	case a == "1" && b == "":
		c15rTriggersA.Add(1)
		if c15rTriggersB.Load() > 0 {
			c15rAAfterB.Add(1)
		}
	case a == "" && b == "2":
		c15rTriggersB.Add(1)
	default:
		c15rBad.Add(1)
	}
}

// VerifC15_RateStagesRunInOrder: the real newStagesWorker / runStage with two RATE-mode stages (the real
// NewIterationWorker tick loop, environment-driven tickers, stage deadlines fired by the environment and caller
// cancellation at any moment, loop unrolling 2): every request a stage's trigger issues is issued while exactly that
// stage's parameters are exported (present while it triggers, never the other stage's), no stage-1 request follows a
// stage-2 request, one pool per stage, and nothing remains set after the run - also when cancelled mid-stage.
//
//verif:conc
//verif:unroll 2
//verif:timeout 600
//verif:replace (*$M/internal/workers.PoolManager).NewTriggerPool c15rNewTriggerPool
//verif:replace (*$M/internal/workers.TriggerPool).Start c15rStart
//verif:replace (*$M/internal/workers.TriggerPool).Trigger c15rTrigger
//verif:deadlock 1
func VerifC15_RateStagesRunInOrder() {
	rate := func(time.Time) int { return 1 }
	stages := []runnableStage{
		{StageDuration: time.Second, IterationDuration: 100 * time.Millisecond, Rate: rate, Params: map[string]string{"STAGE_A": "1"}},
		{StageDuration: time.Second, IterationDuration: 100 * time.Millisecond, Rate: rate, Params: map[string]string{"STAGE_B": "2"}},
	}
	ctx, cancel := context.WithCancel(context.Background())
	go func() {
		if zz.Bool("callerCancels") {
			cancel()
		}
	}()
	trigger := newStagesWorker(stages)
	trigger(ctx, nil, workers.New(0, nil), options.RunOptions{Concurrency: 1})
	zz.Cover("C15.rate.done")
	zz.CoverIf("C15.rate.both_stages_triggered", c15rTriggersA.Load() > 0 && c15rTriggersB.Load() > 0)
	zz.Assert("C15.rate.requests_see_exactly_their_stage_parameters", c15rBad.Load() == 0)
	zz.Assert("C15.rate.strictly_one_after_another", c15rAAfterB.Load() == 0)
	zz.Assert("C15.rate.one_pool_per_started_stage", c15rPools.Load() <= 2 && (c15rTriggersB.Load() == 0 || c15rPools.Load() == 2))
	zz.Assert("C15.rate.no_parameter_remains_set", os.Getenv("STAGE_A") == "" && os.Getenv("STAGE_B") == "")
	cancel()
}
