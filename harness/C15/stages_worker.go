//verif:pkg internal/trigger/file
package file

import (
	"context"
	"os"
	"sync/atomic"
	"time"

	"github.com/form3tech-oss/f1/v2/internal/metrics"
	"github.com/form3tech-oss/f1/v2/internal/options"
	"github.com/form3tech-oss/f1/v2/internal/progress"
	"github.com/form3tech-oss/f1/v2/internal/workers"
	zz "github.com/form3tech-oss/f1/v2/internal/zzverif"
	"github.com/form3tech-oss/f1/v2/pkg/f1/scenarios"
	f1testing "github.com/form3tech-oss/f1/v2/pkg/f1/testing"
)

var (
	c15InFlight atomic.Int64
	c15Started  atomic.Int64
	c15SawA     atomic.Int64 // iterations that ran with stage 1's parameter set
	c15SawB     atomic.Int64 // ... with stage 2's parameter set
	c15BadEnv   atomic.Int64 // iterations that saw both or neither
	c15AfterB   atomic.Int64 // stage-1 iterations that started after a stage-2 iteration had run
	c15Over     atomic.Int64 // iterations that started while another one was executing (each stage has ONE user)
)

// VerifC15_StagesRunInOrder: the real newStagesWorker / runStage with two users-mode stages (one worker each), each
// carrying its own parameter, real continuous pools on ONE pool manager, stage deadlines fired by the environment
// at any moment and caller cancellation at any moment, over all interleavings (loop unrolling 2):
//   - every iteration runs with exactly its own stage's parameter in the environment (never both, never none),
//     and no stage-1 iteration starts after a stage-2 iteration ran (stages strictly one after another)
//   - at no instant are two iterations executing: each stage has one user, and the users of a finished stage
//     have left their iteration before the next stage's pool starts (C04 across consecutive users-mode pools)
//   - when the trigger has returned and the pool manager reports completion, no iteration is in flight (C05) and
//     none of the stage parameters remains set - also when the run was cancelled mid-stage
//
//verif:conc
//verif:unroll 2
//verif:timeout 600
//verif:deadlock 1
func VerifC15_StagesRunInOrder() {
	sc := &scenarios.Scenario{Name: "scn"}
	sc.RunFn = func(*f1testing.T) {
		if c15InFlight.Add(1) > 1 {
			c15Over.Add(1)
		}
		c15Started.Add(1)
		a, b := os.Getenv("STAGE_A"), os.Getenv("STAGE_B")
		switch {
		case a == "1" && b == "":
			c15SawA.Add(1)
			if c15SawB.Load() > 0 {
				c15AfterB.Add(1)
			}
		case a == "" && b == "2":
			c15SawB.Add(1)
		default:
			c15BadEnv.Add(1)
		}
		c15InFlight.Add(-1)
	}
	as := workers.NewActiveScenario(sc, &metrics.Metrics{}, &progress.Stats{}, nil, nil)
	m := workers.New(0, as)
	stages := []runnableStage{
		{StageDuration: time.Second, UsersConcurrency: 1, Params: map[string]string{"STAGE_A": "1"}},
		{StageDuration: time.Second, UsersConcurrency: 1, Params: map[string]string{"STAGE_B": "2"}},
	}
	ctx, cancel := context.WithCancel(context.Background())
	go func() {
		if zz.Bool("callerCancels") {
			cancel()
		}
	}()
	trigger := newStagesWorker(stages)
	trigger(ctx, nil, m, options.RunOptions{Concurrency: 1})
	<-m.WaitForCompletion()
	zz.Cover("C15.stages.done")
	zz.CoverIf("C15.stages.both_stages_iterated", c15SawA.Load() > 0 && c15SawB.Load() > 0)
	zz.Assert("C15.stages.iterations_see_exactly_their_stage_parameters", c15BadEnv.Load() == 0)
	zz.Assert("C15.stages.strictly_one_after_another", c15AfterB.Load() == 0)
	zz.Assert("C04.stages.never_more_in_flight_than_the_stage_has_users", c15Over.Load() == 0)
	zz.Assert("C05.stages.nothing_in_flight_after_completion", c15InFlight.Load() == 0)
	zz.Assert("C15.stages.no_parameter_remains_set", os.Getenv("STAGE_A") == "" && os.Getenv("STAGE_B") == "")
	cancel()
}

// VerifC05_ConsecutivePoolsComplete: the same harness under C05: with several pools run one after another on one pool
// manager (config-file stages), completion is only reported once the workers of the LAST pool have finished: no
// iteration is in flight or starts after the run has been reported complete.
//
//verif:conc
//verif:unroll 2
//verif:timeout 600
//verif:deadlock 1
func VerifC05_ConsecutivePoolsComplete() { VerifC15_StagesRunInOrder() }

// VerifC06_ConsecutivePoolsComplete: the same harness under C06: the run's setup cleanups are released by the pool
// manager's completion signal, so that signal must not fire while an iteration of ANY stage is still in flight.
//
//verif:conc
//verif:unroll 2
//verif:timeout 600
//verif:deadlock 1
func VerifC06_ConsecutivePoolsComplete() { VerifC15_StagesRunInOrder() }

// VerifC04_UsersStagesNeverOverlap: the same harness under C04: consecutive users-mode pools of one manager never
// run side by side, so the number of executing iterations never exceeds the users of the stage in force.
//
//verif:conc
//verif:unroll 2
//verif:timeout 600
//verif:deadlock 1
func VerifC04_UsersStagesNeverOverlap() { VerifC15_StagesRunInOrder() }
