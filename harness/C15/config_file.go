//verif:pkg internal/trigger/file
package file

import (
	"github.com/form3tech-oss/f1/v2/internal/trigger/api"
	"time"

	zz "github.com/form3tech-oss/f1/v2/internal/zzverif"
)

var c15Config ConfigFile

// stand-in for yaml.Unmarshal: the decoder hands over an arbitrary ConfigFile value prepared by the harness
// (YAML syntax itself is outside the claim)
func c15Unmarshal(_ []byte, out interface{}) error {
	cf := out.(*ConfigFile)
	*cf = c15Config
	return nil
}

func c15Str(s string) *string               { return &s }
func c15Dur(d time.Duration) *time.Duration { return &d }
func c15Int(i int) *int                     { return &i }
func c15U64(u uint64) *uint64               { return &u }
func c15Bool(b bool) *bool                  { return &b }
func c15F(f float64) *float64               { return &f }

func c15Limits() Limits {
	return Limits{
		MaxDuration: c15Dur(time.Duration(zz.Int64("limits.maxDuration"))), Concurrency: c15Int(zz.Int("limits.concurrency")),
		MaxIterations: c15U64(zz.Uint64("limits.maxIterations")), IgnoreDropped: c15Bool(zz.Bool("limits.ignoreDropped")),
	}
}

// VerifC15_SkipRule: a config file with n <= 3 fully specified constant stages of ARBITRARY durations, an arbitrary
// stage-start (or none) and an arbitrary `now`: the plan keeps, in file order, exactly the stages whose scheduled
// end stage-start + cumulative duration is after now (all stages without stage-start); the trigger duration is the
// sum over ALL stages; the limits are mapped one-to-one (max-failures / max-failures-rate default to 0).
//
//verif:replace gopkg.in/yaml.v3.Unmarshal c15Unmarshal
//verif:noreplay yaml.Unmarshal is replaced by a harness stand-in
//verif:unroll 12
func VerifC15_SkipRule() {
	maxN := 2
	if zz.Thorough() {
		maxN = 3
	}
	n := zz.Choice("n", maxN) + 1
	var stages []Stage
	var durs []int64
	for i := 0; i < n; i++ {
		d := zz.Int64("D", i)
		zz.Assume(d >= 0)
		zz.Assume(d < 1<<44)
		durs = append(durs, d)
		stages = append(stages, Stage{Mode: c15Str("constant"), Duration: c15Dur(time.Duration(d)), Rate: c15Str("10/s"),
			Distribution: c15Str("none"), Jitter: c15F(0), Parameters: &map[string]string{}})
	}
	now := zz.Int64("now")
	zz.Assume(now > 0)
	zz.Assume(now < 1<<60)
	hasStart := zz.Bool("hasStageStart")
	start := zz.Int64("stageStart")
	zz.Assume(start > 0)
	zz.Assume(start < 1<<60)
	c15Config = ConfigFile{Scenario: c15Str("scn"), Limits: c15Limits(), Stages: stages}
	zz.Assume(*c15Config.Limits.Concurrency >= 1)
	withMF := zz.Bool("hasMaxFailures")
	if withMF {
		c15Config.Limits.MaxFailures = c15U64(zz.Uint64("limits.maxFailures"))
		c15Config.Limits.MaxFailuresRate = c15Int(zz.Int("limits.maxFailuresRate"))
	}
	if hasStart {
		t := zz.Time(start)
		c15Config.Schedule.StageStart = &t
	}
	rs, err := ParseConfigFile(nil, zz.Time(now))
	zz.Cover("C15.skip.returned")
	zz.Assert("C15.skip.accepted", err == nil)
	if err != nil {
		return
	}
	// reference: indices of the stages to keep
	var keep []int
	cum := int64(0)
	for i := 0; i < n; i++ {
		cum += durs[i]
		if !hasStart || start+cum > now {
			keep = append(keep, i)
		}
	}
	zz.CoverIf("C15.skip.some_skipped", len(keep) < n && len(keep) > 0)
	zz.Assert("C15.skip.total_duration_is_sum_of_all_stages", int64(rs.stagesTotalDuration) == cum)
	zz.Assert("C15.skip.kept_count", len(rs.Stages) == len(keep))
	if len(rs.Stages) != len(keep) {
		return
	}
	for k, i := range keep {
		zz.Assert("C15.skip.kept_in_file_order_with_own_duration", int64(rs.Stages[k].StageDuration) == durs[i])
	}
	zz.Assert("C15.skip.limits_mapped", rs.Scenario == "scn" && int64(rs.MaxDuration) == zz.Int64("limits.maxDuration") &&
		rs.Concurrency == zz.Int("limits.concurrency") && rs.MaxIterations == zz.Uint64("limits.maxIterations") &&
		rs.IgnoreDropped == zz.Bool("limits.ignoreDropped"))
	if withMF {
		zz.Assert("C15.skip.failure_limits_mapped", rs.maxFailures == zz.Uint64("limits.maxFailures") && rs.maxFailuresRate == zz.Int("limits.maxFailuresRate"))
	} else {
		zz.Assert("C15.skip.failure_limits_default_zero", rs.maxFailures == 0 && rs.maxFailuresRate == 0)
	}
}

// VerifC15_ConstantDefaults: a single constant stage in which every field is independently present or omitted, with
// a default section in which every field is independently present or omitted (all 2^10 presence patterns, as
// symbolic booleans): the file is either rejected with an error - exactly when a required field is missing in both
// places - or yields a runnable stage built from the stage's own value when present and the default's otherwise;
// it never crashes (C14), also when `jitter` or `parameters` are given nowhere.
//
//verif:replace gopkg.in/yaml.v3.Unmarshal c15Unmarshal
//verif:noreplay yaml.Unmarshal is replaced by a harness stand-in
//verif:unroll 12
//verif:timeout 120
func VerifC15_ConstantDefaults() {
	present := func(name string) bool { return zz.Bool("has." + name) }
	var st, def Stage
	if present("stage.mode") {
		st.Mode = c15Str("constant")
	}
	if present("default.mode") {
		def.Mode = c15Str("constant")
	}
	if present("stage.duration") {
		st.Duration = c15Dur(7 * time.Second)
	}
	if present("default.duration") {
		def.Duration = c15Dur(9 * time.Second)
	}
	if present("stage.rate") {
		st.Rate = c15Str("3/s")
	}
	if present("default.rate") {
		def.Rate = c15Str("5/100ms")
	}
	if present("stage.distribution") {
		st.Distribution = c15Str("none")
	}
	if present("default.distribution") {
		def.Distribution = c15Str("none")
	}
	if present("stage.jitter") {
		st.Jitter = c15F(0)
	}
	if present("default.jitter") {
		def.Jitter = c15F(0)
	}
	c15Config = ConfigFile{Scenario: c15Str("scn"), Limits: c15Limits(), Default: def, Stages: []Stage{st}}
	zz.Assume(*c15Config.Limits.Concurrency >= 1)
	rs, err := ParseConfigFile(nil, zz.Time(1<<40))
	has := func(a, b string) bool { return zz.Bool("has.stage."+a) || zz.Bool("has.default."+b) }
	complete := has("mode", "mode") && has("duration", "duration") && has("rate", "rate") && has("distribution", "distribution")
	zz.Cover("C15.defaults.returned")
	zz.CoverIf("C15.defaults.accepted_from_defaults", err == nil && !zz.Bool("has.stage.rate"))
	zz.Assert("C15.defaults.rejected_iff_required_field_missing_everywhere", (err != nil) == !complete)
	if err != nil {
		return
	}
	zz.Assert("C15.defaults.one_stage", len(rs.Stages) == 1)
	wantDur := 9 * time.Second
	if zz.Bool("has.stage.duration") {
		wantDur = 7 * time.Second
	}
	wantTick := 100 * time.Millisecond
	wantRate := 5
	if zz.Bool("has.stage.rate") {
		wantTick, wantRate = time.Second, 3
	}
	s0 := rs.Stages[0]
	zz.Assert("C15.defaults.own_value_else_default", s0.StageDuration == wantDur && s0.IterationDuration == wantTick && s0.Rate != nil && s0.Rate(zz.Time(1)) == wantRate)
	zz.Assert("C14.file.accepted_stage_is_runnable", s0.IterationDuration > 0 && s0.Rate != nil && s0.Params != nil)
}

// VerifC14_ConfigFileNeverCrashes: the presence-pattern harness under C14: for every subset of present fields the
// config file is either rejected with an error or yields a runnable stage; it never crashes.
//
//verif:replace gopkg.in/yaml.v3.Unmarshal c15Unmarshal
//verif:noreplay yaml.Unmarshal is replaced by a harness stand-in
//verif:unroll 12
//verif:timeout 120
func VerifC14_ConfigFileNeverCrashes() { VerifC15_ConstantDefaults() }

// VerifC14_RampStagePresence: a single ramp stage in which start-rate, end-rate and distribution are independently
// present or omitted in the stage and in the default section (2^6 patterns): rejected with an error exactly when one
// of them is missing in both places, otherwise a runnable stage; never a crash.
//
//verif:replace gopkg.in/yaml.v3.Unmarshal c15Unmarshal
//verif:noreplay yaml.Unmarshal is replaced by a harness stand-in
//verif:unroll 12
//verif:timeout 120
func VerifC14_RampStagePresence() {
	present := func(name string) bool { return zz.Bool("has." + name) }
	st := Stage{Mode: c15Str("ramp"), Duration: c15Dur(10 * time.Second)}
	var def Stage
	if present("stage.start") {
		st.StartRate = c15Str("1/s")
	}
	if present("default.start") {
		def.StartRate = c15Str("2/s")
	}
	if present("stage.end") {
		st.EndRate = c15Str("10/s")
	}
	if present("default.end") {
		def.EndRate = c15Str("20/s")
	}
	if present("stage.distribution") {
		st.Distribution = c15Str("none")
	}
	if present("default.distribution") {
		def.Distribution = c15Str("none")
	}
	c15Config = ConfigFile{Scenario: c15Str("scn"), Limits: c15Limits(), Default: def, Stages: []Stage{st}}
	zz.Assume(*c15Config.Limits.Concurrency >= 1)
	rs, err := ParseConfigFile(nil, zz.Time(1<<40))
	has := func(a string) bool { return zz.Bool("has.stage."+a) || zz.Bool("has.default."+a) }
	complete := has("start") && has("end") && has("distribution")
	zz.Cover("C14.ramp.returned")
	zz.CoverIf("C14.ramp.accepted", err == nil)
	zz.Assert("C14.ramp.rejected_iff_required_field_missing_everywhere", (err != nil) == !complete)
	if err != nil {
		return
	}
	zz.Assert("C14.ramp.accepted_stage_is_runnable", len(rs.Stages) == 1 && rs.Stages[0].IterationDuration > 0 && rs.Stages[0].Rate != nil)
	want := 2
	if zz.Bool("has.stage.start") {
		want = 1
	}
	zz.Assert("C15.ramp.own_value_else_default", rs.Stages[0].Rate(zz.Time(1)) == want)
}

var c15Jitters []float64

// stand-in for api.WithJitter: records the jitter a stage's rate function is built with
func c15WithJitter(fn api.RateFunction, j float64) api.RateFunction {
	c15Jitters = append(c15Jitters, j)
	return fn
}

// VerifC15_JitterInheritance: a constant or ramp stage whose jitter is independently present (with an ARBITRARY value,
// including an explicit 0) or omitted in the stage and in the default section: the rate function is built with the
// stage's own value whenever the stage gives one - an explicit zero is a value, not an omission -, otherwise with the
// default's, otherwise with 0.
//
//verif:replace gopkg.in/yaml.v3.Unmarshal c15Unmarshal
//verif:replace $M/internal/trigger/api.WithJitter c15WithJitter
//verif:noreplay yaml.Unmarshal and WithJitter are replaced by harness stand-ins
//verif:unroll 12
//verif:timeout 120
func VerifC15_JitterInheritance() {
	c15Jitters = nil
	sj, dj := zz.Float64("stage.jitter"), zz.Float64("default.jitter")
	zz.Assume(sj >= 0)
	zz.Assume(sj < 100)
	zz.Assume(dj >= 0)
	zz.Assume(dj < 100)
	st := Stage{Duration: c15Dur(10 * time.Second), Distribution: c15Str("none")}
	if zz.Bool("ramp") {
		st.Mode, st.StartRate, st.EndRate = c15Str("ramp"), c15Str("1/s"), c15Str("10/s")
	} else {
		st.Mode, st.Rate = c15Str("constant"), c15Str("5/s")
	}
	var def Stage
	if zz.Bool("has.stage.jitter") {
		st.Jitter = c15F(sj)
	}
	if zz.Bool("has.default.jitter") {
		def.Jitter = c15F(dj)
	}
	c15Config = ConfigFile{Scenario: c15Str("scn"), Limits: c15Limits(), Default: def, Stages: []Stage{st}}
	zz.Assume(*c15Config.Limits.Concurrency >= 1)
	rs, err := ParseConfigFile(nil, zz.Time(1<<40))
	zz.Cover("C15.jitter.returned")
	zz.CoverIf("C15.jitter.explicit_zero_in_stage_nonzero_default", err == nil && zz.Bool("has.stage.jitter") && sj == 0 && zz.Bool("has.default.jitter") && dj > 0)
	zz.Assert("C15.jitter.accepted", err == nil && rs != nil && len(rs.Stages) == 1)
	if err != nil {
		return
	}
	want := 0.0
	if zz.Bool("has.stage.jitter") {
		want = sj
	} else if zz.Bool("has.default.jitter") {
		want = dj
	}
	zz.Assert("C15.jitter.own_value_else_default_else_zero", len(c15Jitters) == 1 && c15Jitters[0] == want)
}
