//verif:pkg pkg/f1/testing
package testing

import (
	zz "github.com/form3tech-oss/f1/v2/internal/zzverif"
)

// engine self-test: order of deferred calls during a panic (LIFO) and recover in the outermost deferred call
func VerifT02_DeferOrder() {
	var log []int
	flag := true
	func() {
		defer func() {
			r := recover()
			if r != nil && flag {
				log = append(log, 1)
			} else if r != nil {
				log = append(log, 2)
			}
		}()
		flag = true
		defer func() { flag = false }()
		panic("x")
	}()
	zz.Cover("T02.done")
	zz.Assert("T02.inner_defer_ran_first", len(log) == 1 && log[0] == 2)
}

type t02T struct {
	tearingDown    bool
	failed, tdFail bool
	stack          []func()
}

func t02Check(t *t02T) {
	if r := recover(); r != nil {
		if t.tearingDown {
			t.tdFail = true
		} else {
			t.failed = true
		}
	}
}

func (t *t02T) teardown() {
	for i := len(t.stack) - 1; i >= 0; i-- {
		func() {
			defer t02Check(t)

			t.tearingDown = true
			defer func() { t.tearingDown = false }()

			t.stack[i]()
		}()
	}
}

// engine self-test: a flag reset by an inner deferred closure is already reset when the outer deferred function recovers
func VerifT02_ResetBeforeRecover() {
	t := &t02T{}
	t.stack = append(t.stack, func() { panic("boom") })
	td := t.teardown
	td()
	zz.Cover("T02.rbr.done")
	zz.Assert("T02.rbr.recorded_as_plain_failure", t.failed && !t.tdFail)
}
