//verif:pkg internal/trigger/gaussian
package gaussian

import (
	"time"

	"github.com/form3tech-oss/f1/v2/internal/gaussian"
	zz "github.com/form3tech-oss/f1/v2/internal/zzverif"
)

func c11Abs(x float64) float64 {
	if x < 0 {
		return -x
	}
	return x
}

// arbitrary calculator state: any positive multiplier and standard deviation, any peak, any carried remainder in [0,1)
func c11Calculator(tag string, weights []float64) *Calculator {
	mean, sd := zz.Float64("mean"), zz.Float64("stddev")
	zz.Assume(sd >= 1)
	zz.Assume(sd < 1e15)
	zz.Assume(mean >= 0)
	zz.Assume(mean < 1e15)
	dist, err := gaussian.NewDistribution(mean, sd)
	zz.Assert("C11.dist.accepts_positive_stddev", err == nil)
	mult := zz.Float64("multiplier")
	zz.Assume(mult >= 0)
	zz.Assume(mult < 1e18)
	rem := zz.Float64("remainder." + tag)
	zz.Assume(rem >= 0)
	zz.Assume(rem < 1)
	// the repeat window is a constant (24h) in these harnesses: the slot arithmetic (now mod window) then is linear
	w := int64(24 * time.Hour)
	avg := 1.0
	return &Calculator{dist: dist, repeatWindow: time.Duration(w), multiplier: mult, remainder: rem, weights: weights, averageWeight: avg}
}

// VerifC11_Step: one tick of the gaussian calculator from an ARBITRARY carried remainder in [0,1) with arbitrary
// distribution parameters and instant (Exp is an uninterpreted function with its range/monotonicity contract):
// the request is a non-negative integer, the new remainder stays in [0,1] and request + new remainder equals the
// un-floored rate + old remainder (fractions are carried, not lost).
//
//verif:fp relaxed
//verif:ints math
//verif:solver z3new
//verif:timeout 120
func VerifC11_Step() {
	c := c11Calculator("a", nil)
	now := zz.Int64("now")
	zz.Assume(now >= 0)
	zz.Assume(now < 1<<60)
	rem0 := c.remainder
	out := c.For(zz.Time(now))
	zz.Cover("C11.step.reached")
	zz.Assert("C11.step.nonneg", out >= 0)
	zz.Assert("C11.step.remainder_range", c.remainder >= 0 && c.remainder <= 1.000000001)
	// the un-floored rate, recomputed through the same density code
	t := zz.Time(now)
	slot := float64(t.Sub(t.Truncate(c.repeatWindow)))
	rate := c.dist.PDF(slot) * c.multiplier
	zz.Assert("C11.step.carry", c11Abs((float64(out)+c.remainder)-(rate+rem0)) <= 1e-9*(1+rate))
}

// (A thorough-tier harness "peak dominance" - the tick nearer the peak never requests fewer than one below the farther
// one, from monotone Exp and per-operation rounding - was built and dropped: its main query is not decided by z3 5.1 or
// cvc5 within 15 minutes, so it is not registered; see DESIGN.md section 5.)

// VerifC11_Weights: with 1..3 weights the factor applied at any instant is weights[i]/averageWeight where i is the
// index of the current repeat window within the weight cycle; the index is always in range (no panic) and the
// search loop terminates within len(weights) steps (unwinding assertion).
//
//verif:fp uf
//verif:ints math
//verif:unroll 6
func VerifC11_Weights() {
	n := zz.Choice("nweights", 3) + 1
	ws := make([]float64, n)
	for i := 0; i < n; i++ {
		ws[i] = zz.Float64("w", i)
	}
	c := c11Calculator("a", ws)
	c.averageWeight = zz.Float64("avgw")
	w := int64(c.repeatWindow)
	now := zz.Int64("now")
	zz.Assume(now >= 0)
	zz.Assume(now < 1<<55)
	rem0 := c.remainder
	_ = w
	out := c.For(zz.Time(now))
	// the weight cycle is aligned to Go's zero time (what Time.Truncate rounds to), 62135596800 s before the Unix epoch
	idx := int(((now/1_000_000_000 + 62135596800) / 86400) % int64(n))
	// reference: same formula with the reference index
	t := zz.Time(now)
	slot := float64(t.Sub(t.Truncate(c.repeatWindow)))
	rate := c.dist.PDF(slot) * c.multiplier
	rate = rate * ws[idx] / c.averageWeight
	withRem := rate + rem0
	zz.Cover("C11.weights.reached")
	zz.CoverIf("C11.weights.last_index", idx == n-1 && n > 1)
	zz.Assert("C11.weights.factor_of_current_window", out == int(zz.FloorUF(withRem)))
}

// VerifC11_WeightsSecondTick: the calculator is STATEFUL across ticks (carried remainder): two consecutive ticks at
// arbitrary instants t1 <= t2 (same or different repeat windows, on or off the window grid) - the factor applied by
// the SECOND tick is the one of t2's window, whatever the first tick saw (nothing about the window of an earlier
// tick may be reused), and the remainder it starts from is the one the first tick left.
//
//verif:fp uf
//verif:ints math
//verif:unroll 6
func VerifC11_WeightsSecondTick() {
	n := zz.Choice("nweights", 3) + 1
	ws := make([]float64, n)
	for i := 0; i < n; i++ {
		ws[i] = zz.Float64("w", i)
	}
	c := c11Calculator("a", ws)
	c.averageWeight = zz.Float64("avgw")
	t1 := zz.Int64("t1")
	t2 := zz.Int64("t2")
	zz.Assume(t1 >= 0)
	zz.Assume(t2 >= t1)
	zz.Assume(t2 < 1<<55)
	c.For(zz.Time(t1))
	rem1 := c.remainder
	out := c.For(zz.Time(t2))
	idx := int(((t2/1_000_000_000 + 62135596800) / 86400) % int64(n))
	t := zz.Time(t2)
	slot := float64(t.Sub(t.Truncate(c.repeatWindow)))
	rate := c.dist.PDF(slot) * c.multiplier
	rate = rate * ws[idx] / c.averageWeight
	withRem := rate + rem1
	zz.Cover("C11.weights2.reached")
	zz.CoverIf("C11.weights2.window_changed", idx != int(((t1/1_000_000_000+62135596800)/86400)%int64(n)))
	zz.Assert("C11.weights2.second_tick_uses_its_own_window", out == int(zz.FloorUF(withRem)))
}

// VerifC11_WindowPosition: "peaks on time" — the position inside the repeat window that is fed to the density, and
// the window's index inside the weight cycle, for repeat windows that do NOT divide the distance between Go's zero
// time and the Unix epoch (7 h, 168 h, 35 s) as well as one that does (24 h): with windows aligned the way
// Time.Truncate aligns them (multiples of the window since Go's zero time; for whole hours/days that is the UTC
// hour/midnight grid), at any instant the slot is (instant - start of its window) and the weight index is the number
// of whole windows since the start of the weight cycle — so the weight switches exactly where the slot wraps to 0.
// The reference is plain second/nanosecond arithmetic, not Time.Truncate. Float operators are uninterpreted: the
// claim is "the documented formula applied to exactly this slot and this weight".
//
//verif:fp uf
//verif:ints math
//verif:unroll 6
func VerifC11_WindowPosition() {
	n := zz.Choice("nweights", 3) + 1
	ws := make([]float64, n)
	for i := 0; i < n; i++ {
		ws[i] = zz.Float64("w", i)
	}
	c := c11Calculator("a", ws)
	c.averageWeight = zz.Float64("avgw")
	wsec := []int64{24 * 3600, 7 * 3600, 168 * 3600, 35}[zz.Choice("window", 4)]
	c.repeatWindow = time.Duration(wsec) * time.Second
	now := zz.Int64("now")
	zz.Assume(now >= 0)
	zz.Assume(now < 1<<55)
	rem0 := c.remainder
	out := c.For(zz.Time(now))
	// reference position: seconds since Go's zero time (62135596800 s before the Unix epoch), modulo the weight cycle
	pos := (now/1_000_000_000 + 62135596800) % (wsec * int64(n))
	idx := int(pos / wsec)
	slotNs := (pos%wsec)*1_000_000_000 + now%1_000_000_000
	rate := c.dist.PDF(float64(slotNs)) * c.multiplier
	rate = rate * ws[idx] / c.averageWeight
	withRem := rate + rem0
	zz.Cover("C11.position.reached")
	zz.CoverIf("C11.position.last_index_of_a_week_window", idx == n-1 && n > 1 && wsec == 168*3600)
	zz.Assert("C11.position.slot_and_weight_of_the_current_window", out == int(zz.FloorUF(withRem)))
}

// VerifC11_Normalisation: NewCalculator's multiplier times the probability mass inside [0, window - frequency]
// equals volume * frequency (exactly, in real arithmetic with CDF/Erfc uninterpreted), sigma <= 0 is rejected, and
// the mean weight is the arithmetic mean of the weights.
//
//verif:fp relaxed
//verif:ints math
//verif:solver z3new
//verif:timeout 120
func VerifC11_Normalisation() {
	peak, sd, freq, win := zz.Int64("peak"), zz.Int64("stddev"), zz.Int64("freq"), zz.Int64("window")
	zz.Assume(peak >= 0)
	zz.Assume(peak < 1<<50)
	zz.Assume(sd < 1<<50)
	zz.Assume(sd > -(1 << 50))
	zz.Assume(freq > 0)
	zz.Assume(freq < 1<<40)
	zz.Assume(win > freq)
	zz.Assume(win < 1<<50)
	vol := zz.Float64("volume")
	zz.Assume(vol >= 0)
	zz.Assume(vol < 1e12)
	n := zz.Choice("nweights", 3)
	ws := make([]float64, n)
	sum := 0.0
	for i := 0; i < n; i++ {
		ws[i] = zz.Float64("w", i)
		zz.Assume(ws[i] >= 0)
		zz.Assume(ws[i] < 1e6)
		sum = zz.RAdd(sum, ws[i])
	}
	c, err := NewCalculator(time.Duration(peak), time.Duration(sd), time.Duration(freq), ws, vol, time.Duration(win))
	zz.Cover("C11.norm.reached")
	if sd <= 0 {
		zz.Assert("C11.norm.rejects_nonpositive_stddev", err != nil)
		return
	}
	zz.Assert("C11.norm.accepts", err == nil)
	if err != nil {
		return
	}
	covered := c.dist.CDF(float64(win-freq)) - c.dist.CDF(0)
	zz.Assume(covered > 1e-9) // the window contains a non-negligible part of the bell (else the profile is degenerate)
	lhs := zz.RMul(c.multiplier, covered)
	rhs := zz.RMul(vol, float64(freq))
	zz.Assert("C11.norm.multiplier_identity", zz.RLeq(zz.RAbs(zz.RSub(lhs, rhs)), zz.RMul(1e-9, zz.RAdd(rhs, 1))))
	if n > 0 {
		zz.Assert("C11.norm.mean_weight", zz.RLeq(zz.RAbs(zz.RSub(zz.RMul(c.averageWeight, float64(n)), sum)), zz.RMul(1e-9, zz.RAdd(sum, 1))))
	} else {
		zz.Assert("C11.norm.mean_weight_default", c.averageWeight == 1)
	}
	zz.Assert("C11.norm.fields", c.repeatWindow == time.Duration(win) && c.frequency == time.Duration(freq) && c.remainder == 0)
}
