//verif:pkg internal/trigger/staged
package staged

import (
	"strings"

	zz "github.com/form3tech-oss/f1/v2/internal/zzverif"
)

// engine self-test for the structured-string model (strings.Split / strings.TrimSpace computed on the structure of a
// concatenation of separator-free pieces): facts that hold for EVERY choice of the pieces, replayed natively.
//
//verif:solver z3new
//verif:timeout 120
func VerifT05_SplitTrimStructure() {
	a := zz.StringExcluding("a", ",:")
	b := zz.StringExcluding("b", ",:")
	c := zz.StringExcluding("c", ",:")
	zz.Assume(len(a) <= 4 && len(b) <= 4 && len(c) <= 4)
	s := a + ":" + b + "," + c
	parts := strings.Split(s, ",")
	zz.Cover("T05.reached")
	zz.Assert("T05.two_elements", len(parts) == 2 && parts[0] == a+":"+b && parts[1] == c)
	el := strings.Split(strings.TrimSpace(parts[0]), ":")
	zz.Assert("T05.two_parts", len(el) == 2)
	if len(el) != 2 {
		return
	}
	// trimming the element and then its parts is the same as trimming the parts
	zz.Assert("T05.trim_of_part_is_trim_of_piece", strings.TrimSpace(el[0]) == strings.TrimSpace(a) && strings.TrimSpace(el[1]) == strings.TrimSpace(b))
	// the element keeps the inner white space of its parts: a's trailing and b's leading blanks survive TrimSpace
	zz.Assert("T05.inner_space_kept", len(strings.TrimSpace(parts[0])) <= len(a)+1+len(b) && len(strings.TrimSpace(parts[0])) >= len(strings.TrimSpace(a))+1+len(strings.TrimSpace(b)))
}

// a WRONG claim that the model must refute with a concrete string (and the native replay must confirm): "the first
// part of the trimmed element is the untrimmed piece" fails for a piece with leading white space
//
//verif:solver z3new
//verif:timeout 120
func VerifT05_WrongClaimIsRefuted() {
	a := zz.StringExcluding("a", ",:")
	b := zz.StringExcluding("b", ",:")
	zz.Assume(len(a) <= 4 && len(b) <= 4)
	el := strings.Split(strings.TrimSpace(a+":"+b), ":")
	zz.Cover("T05.wrong.reached")
	zz.Assert("T05.wrong.first_part_is_the_piece", len(el) == 2 && el[0] == a)
}
