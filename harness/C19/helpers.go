//verif:pkg internal/run/views
package views

import (
	"time"

	zz "github.com/form3tech-oss/f1/v2/internal/zzverif"
)

// VerifC19_PercentHelper: the `percent` helper the summary template calls (taken, on every run, from the function map
// parseTemplates builds) on ARBITRARY counts a <= b <= total, 0 < total < 2^53 (floats as reals with per-operation
// relative rounding error 2^-53 and monotone rounding): the share is in [0, 100(+1e-9)], is 0 exactly for a count of
// 0 and positive otherwise, is within 1e-9 of 100 for the whole total and below 100 for less than the whole (totals
// < 2^32), never decreases when the count grows, and is within 1e-9 relative of 100*count/total. The
// template-structure harness shows that percent is only ever called as (a stated non-zero count, Iterations), so
// total >= count > 0 at every call. (An exact-IEEE version of this harness was not decided within 15 minutes.)
//
//verif:noreplay the helper closures are anonymous: a native test cannot call them
//verif:fp relaxed
//verif:fpmono 1
//verif:ints math
//verif:solver z3new
//verif:timeout 300
func VerifC19_PercentHelper() {
	percent := zz.FuncMapEntry(parseTemplates, "percent").(func(uint64, uint64) float64)
	total := zz.Uint64("total")
	a, b := zz.Uint64("a"), zz.Uint64("b")
	zz.Assume(total > 0 && total < 1<<53)
	zz.Assume(a <= b && b <= total)
	pa, pb := percent(a, total), percent(b, total)
	zz.Cover("C19.percent.reached")
	zz.Assert("C19.percent.in_range", pa >= 0 && pa <= 100.000000001 && pb >= 0 && pb <= 100.000000001)
	zz.Assert("C19.percent.zero_iff_none", (pa == 0) == (a == 0))
	zz.Assert("C19.percent.whole_total_is_100", b != total || (pb >= 99.999999999 && pb <= 100.000000001))
	zz.Assert("C19.percent.less_than_all_is_below_100", b == total || total >= 1<<32 || pb < 100)
	zz.Assert("C19.percent.monotone_in_the_count", pa <= pb)
	// pb * total within 1e-9 relative of 100 * b
	lhs := zz.RMul(pb, float64(total))
	rhs := zz.RMul(100, float64(b))
	zz.Assert("C19.percent.is_the_share_of_the_total", zz.RLeq(zz.RAbs(zz.RSub(lhs, rhs)), zz.RMul(rhs, 0.000000001)))
}

// VerifC19_RateAndDurationHelpers: the `rate`, `durationSeconds` helpers on ARBITRARY durations and counts: never a
// panic (in particular no division by a zero number of seconds: zero elapsed time), rate = 0 whenever the duration
// rounds to 0 s, otherwise within 0.5 (+ rounding) of count / rounded seconds; durationSeconds is within half a
// second of its argument and a whole number of seconds. Floats as reals with per-operation rounding error.
//
//verif:noreplay the helper closures are anonymous: a native test cannot call them
//verif:fp relaxed
//verif:ints math
//verif:solver z3new
//verif:timeout 300
func VerifC19_RateAndDurationHelpers() {
	rate := zz.FuncMapEntry(parseTemplates, "rate").(func(time.Duration, uint64) uint64)
	durSec := zz.FuncMapEntry(parseTemplates, "durationSeconds").(func(time.Duration) time.Duration)
	d := time.Duration(zz.Int64("duration"))
	n := zz.Uint64("count")
	zz.Assume(d >= 0 && d < 1<<55)
	zz.Assume(n < 1<<53)
	r := rate(d, n)
	ds := durSec(d)
	zz.Cover("C19.rate.reached")
	zz.CoverIf("C19.rate.nonzero", r > 0)
	zz.Assert("C19.duration.whole_seconds_within_half_a_second", ds%time.Second == 0 && ds-d <= time.Second/2 && d-ds <= time.Second/2)
	if ds == 0 {
		zz.Assert("C19.rate.zero_elapsed_time_gives_zero", r == 0)
		return
	}
	secs := int64(ds / time.Second)
	// |r - n/secs| <= 0.5 (+slack), stated without division: |r*secs - n| <= secs*(0.5+1e-6) + 1e-6*n
	diff := zz.RSub(zz.RMul(float64(r), float64(secs)), float64(n))
	bound := zz.RAdd(zz.RMul(float64(secs), 0.500001), zz.RMul(float64(n), 0.000001))
	zz.Assert("C19.rate.is_count_per_rounded_second", zz.RLeq(zz.RAbs(diff), bound))
}
