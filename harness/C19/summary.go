//verif:pkg internal/run
package run

import (
	"errors"
	"log/slog"
	"time"

	"github.com/form3tech-oss/f1/v2/internal/log"
	"github.com/form3tech-oss/f1/v2/internal/options"
	"github.com/form3tech-oss/f1/v2/internal/progress"
	"github.com/form3tech-oss/f1/v2/internal/run/views"
	zz "github.com/form3tech-oss/f1/v2/internal/zzverif"
)

var (
	c19Result   views.ResultData
	c19Progress views.ProgressData
	c19Keys     []string
	c19Vals     []uint64
	c19Period   time.Duration
)

// stand-ins for the view constructors: they capture the data handed to the renderer
func c19ResultView(_ *views.Views, d views.ResultData) *views.ViewContext[views.ResultData] {
	c19Result = d
	return nil
}
func c19ProgressView(_ *views.Views, d views.ProgressData) *views.ViewContext[views.ProgressData] {
	c19Progress = d
	return nil
}

// stand-ins for the slog attribute constructors used by the structured iteration_stats group
func c19Uint64(key string, v uint64) slog.Attr {
	c19Keys = append(c19Keys, key)
	c19Vals = append(c19Vals, v)
	return slog.Attr{}
}
func c19Duration(key string, v time.Duration) slog.Attr {
	c19Period = v
	return slog.Attr{}
}

func c19Snapshot() progress.Snapshot {
	mk := func(tag string) progress.IterationDurationsSnapshot {
		return progress.IterationDurationsSnapshot{Average: time.Duration(zz.Int64(tag + ".avg")), Count: zz.Uint64(tag + ".count"),
			Min: time.Duration(zz.Int64(tag + ".min")), Max: time.Duration(zz.Int64(tag + ".max"))}
	}
	return progress.Snapshot{DroppedIterationCount: zz.Uint64("dropped"), SuccessfulIterationDurationsForPeriod: mk("period"),
		SuccessfulIterationDurations: mk("ok"), FailedIterationDurations: mk("failed"), Period: time.Duration(zz.Int64("periodLen"))}
}

// VerifC19_DataMatchesResult: for ARBITRARY 64-bit counts, duration statistics, options and 0..2 errors, the data
// handed to the summary and progress renderers (human readable and structured) states exactly the numbers of the
// result it is built from: each count is its own snapshot field, Iterations is successful + failed + dropped (the
// denominator of every percentage), IterationsStarted is successful + failed, the pass/fail banner flag is the
// verdict, the error is the result's error; the structured iteration_stats group pairs every key with its own count
// and defaults `started` to the sum when none is given.
//
//verif:replace (*$M/internal/run/views.Views).Result c19ResultView
//verif:replace (*$M/internal/run/views.Views).Progress c19ProgressView
//verif:replace log/slog.Uint64 c19Uint64
//verif:replace log/slog.Duration c19Duration
//verif:noreplay view constructors and slog attribute constructors are replaced by capturing stand-ins
func VerifC19_DataMatchesResult() {
	opts := options.RunOptions{IgnoreDropped: zz.Bool("ign"), MaxFailures: zz.Uint64("mf"), MaxFailuresRate: zz.Int("mfr")}
	zz.Assume(opts.MaxFailuresRate >= 0)
	zz.Assume(opts.MaxFailuresRate <= 100)
	r := NewResult(opts, &views.Views{}, nil)
	snap := c19Snapshot()
	zz.Assume(snap.SuccessfulIterationDurations.Count < 1<<55)
	zz.Assume(snap.FailedIterationDurations.Count < 1<<55)
	zz.Assume(snap.DroppedIterationCount < 1<<55)
	r.snapshot = snap
	r.LogFilePath = "/tmp/x.log"
	nerr := zz.Choice("nerr", 3)
	for i := 0; i < nerr; i++ {
		r.errors = append(r.errors, errors.New("teardown failed"))
	}
	r.Summary()
	d := c19Result
	s, f, dr := snap.SuccessfulIterationDurations.Count, snap.FailedIterationDurations.Count, snap.DroppedIterationCount
	zz.Cover("C19.summary.built")
	zz.Assert("C19.summary.counts_are_the_results", d.SuccessfulIterationCount == s && d.FailedIterationCount == f && d.DroppedIterationCount == dr)
	zz.Assert("C19.summary.percent_denominator_is_all_iterations", d.Iterations == s+f+dr)
	zz.Assert("C19.summary.started_is_successful_plus_failed", d.IterationsStarted == s+f)
	zz.Assert("C19.summary.banner_is_the_verdict", d.Failed == r.Failed())
	zz.Assert("C19.summary.error_is_the_results", (d.Error == nil) == (nerr == 0) && (nerr != 1 || d.Error == r.errors[0]))
	zz.Assert("C19.summary.duration_stats_forwarded", d.SuccessfulIterationDurations == snap.SuccessfulIterationDurations &&
		d.FailedIterationDurations == snap.FailedIterationDurations && d.LogFilePath == "/tmp/x.log")

	r.Progress()
	p := c19Progress
	zz.Assert("C19.progress.counts_are_the_results", p.SuccessfulIterationCount == s && p.FailedIterationCount == f && p.DroppedIterationCount == dr &&
		p.Period == snap.Period && p.SuccessfulIterationDurationsForPeriod == snap.SuccessfulIterationDurationsForPeriod)

	// structured form
	started := zz.Uint64("startedArg")
	c19Keys, c19Vals = nil, nil
	log.IterationStatsGroup(started, s, f, dr, time.Duration(zz.Int64("periodArg")))
	wantStarted := started
	if started == 0 {
		wantStarted = s + f + dr
	}
	zz.Assert("C19.log.keys_paired_with_their_counts", len(c19Keys) == 4 &&
		c19Keys[0] == "started" && c19Vals[0] == wantStarted && c19Keys[1] == "successful" && c19Vals[1] == s &&
		c19Keys[2] == "failed" && c19Vals[2] == f && c19Keys[3] == "dropped" && c19Vals[3] == dr && int64(c19Period) == zz.Int64("periodArg"))
}
