//verif:pkg internal/run/views
package views

import (
	"strings"

	zz "github.com/form3tech-oss/f1/v2/internal/zzverif"
)

// c19Truth: the truth value text/template gives to a field of the (symbolic) data when it is used as a condition:
// counts are true iff non-zero, Failed is the verdict flag; anything else is an arbitrary Boolean.
func c19Truth(field string, s, f, d uint64, failed bool) bool {
	switch field {
	case "SuccessfulIterationCount":
		return s != 0
	case "FailedIterationCount":
		return f != 0
	case "DroppedIterationCount":
		return d != 0
	case "Failed":
		return failed
	}
	return zz.Bool("truth." + field)
}

// c19Shown: the use i of the template is rendered for the given data (all its enclosing conditions hold)
func c19Shown(src string, i int, s, f, d uint64, failed bool) bool {
	shown := true
	for g := 0; g < zz.TmplInt(src, "nguards", i); g++ {
		c := zz.TmplStr(src, "guard", i, g)
		switch {
		case strings.HasPrefix(c, "+"):
			if !c19Truth(c[1:], s, f, d, failed) {
				shown = false
			}
		case strings.HasPrefix(c, "-"):
			if c19Truth(c[1:], s, f, d, failed) {
				shown = false
			}
		default:
			if !zz.Bool("truth." + c) { // a condition the analysis does not understand: arbitrary
				shown = false
			}
		}
	}
	return shown
}

// c19States: some action of the template that is rendered for this data prints the value of `field` itself
// ({{.Field}} or printf of it - not a helper applied to it)
func c19States(src, field string, s, f, d uint64, failed bool) bool {
	stated := false
	for i := 0; i < zz.TmplInt(src, "n", 0); i++ {
		if zz.TmplStr(src, "kind", i, 0) != "field" || zz.TmplStr(src, "field", i, 0) != field {
			continue
		}
		fn := zz.TmplStr(src, "func", i, 0)
		if fn != "" && fn != "printf" {
			continue
		}
		if c19Shown(src, i, s, f, d, failed) {
			stated = true
		}
	}
	return stated
}

func c19IsCount(field string) bool {
	return field == "SuccessfulIterationCount" || field == "FailedIterationCount" || field == "DroppedIterationCount"
}

// c19Template: the STRUCTURE of a summary/progress template (parsed by text/template/parse from the constant in
// /repo on every run) against ARBITRARY counts and verdict:
//   - every non-zero count is stated: an action printing that very field is rendered whenever the count is non-zero
//     (so a line may be omitted only for a zero count, and never depends on the verdict or on another count)
//   - every percentage is `percent <count> .Iterations` of a count that is stated on the same line (same enclosing
//     conditions): the share of ALL iterations
//   - (summary only) the banner: "Load Test Failed" is rendered iff the verdict flag is set, "Load Test Passed" iff not
func c19Template(src string, banner bool) {
	s, f, d := zz.Uint64("s"), zz.Uint64("f"), zz.Uint64("d")
	failed := zz.Bool("failed")
	n := zz.TmplInt(src, "n", 0)
	zz.Assert("C19.tmpl.parses", n > 0 && zz.TmplStr(src, "kind", 0, 0) != "error")
	zz.Cover("C19.tmpl.reached")
	zz.Assert("C19.tmpl.nonzero_successful_count_is_stated", s == 0 || c19States(src, "SuccessfulIterationCount", s, f, d, failed))
	zz.Assert("C19.tmpl.nonzero_failed_count_is_stated", f == 0 || c19States(src, "FailedIterationCount", s, f, d, failed))
	zz.Assert("C19.tmpl.nonzero_dropped_count_is_stated", d == 0 || c19States(src, "DroppedIterationCount", s, f, d, failed))
	zz.CoverIf("C19.tmpl.failed_count_with_passing_verdict", f != 0 && !failed)
	for i := 0; i < n; i++ {
		if zz.TmplStr(src, "kind", i, 0) == "field" && zz.TmplStr(src, "func", i, 0) == "percent" {
			a0, a1 := zz.TmplStr(src, "arg", i, 0), zz.TmplStr(src, "arg", i, 1)
			zz.Assert("C19.tmpl.percent_is_share_of_all_iterations", zz.TmplInt(src, "nargs", i) == 2 && c19IsCount(a0) && a1 == "Iterations")
			// whenever the percentage is rendered, its own count is stated too (same line)
			zz.Assert("C19.tmpl.percent_belongs_to_a_stated_count", !c19Shown(src, i, s, f, d, failed) || c19States(src, a0, s, f, d, failed))
		}
	}
	if banner {
		failedBanner, passedBanner := false, false
		for i := 0; i < n; i++ {
			if zz.TmplStr(src, "kind", i, 0) != "text" {
				continue
			}
			txt := zz.TmplStr(src, "text", i, 0)
			if strings.Contains(txt, "Load Test Failed") && c19Shown(src, i, s, f, d, failed) {
				failedBanner = true
			}
			if strings.Contains(txt, "Load Test Passed") && c19Shown(src, i, s, f, d, failed) {
				passedBanner = true
			}
		}
		zz.Assert("C19.tmpl.banner_matches_verdict", failedBanner == failed && passedBanner == !failed)
	}
}

// VerifC19_SummaryTemplate: see c19Template; the final summary.
//
//verif:unroll 80
func VerifC19_SummaryTemplate() { c19Template(resultTemplate, true) }

// VerifC19_ProgressTemplate: see c19Template; the progress line.
//
//verif:unroll 80
func VerifC19_ProgressTemplate() { c19Template(progressTemplate, false) }
