//verif:pkg pkg/f1
package f1

import (
	"errors"
	"log/slog"
	"time"

	"github.com/form3tech-oss/f1/v2/internal/metrics"
	zz "github.com/form3tech-oss/f1/v2/internal/zzverif"
	"github.com/form3tech-oss/f1/v2/pkg/f1/testing"
)

const (
	c20Pass = iota
	c20Fail
	c20FailNow
	c20Panic
	c20TimedFailNow // FailNow raised inside a t.Time(...) stage
	c20TimedPanic   // panic raised inside a t.Time(...) stage
	c20N
)

// stand-in for the stage-duration metric written by T.Time (the global metrics instance is not the subject here)
func c20RecordTime(_ *testing.T, _ string, _ time.Time) {}

// c20Stops: the behaviour ends the component (and with it the rest of the iteration / setup)
func c20Stops(beh int) bool {
	return beh == c20FailNow || beh == c20Panic || beh == c20TimedFailNow || beh == c20TimedPanic
}

type c20Event struct {
	comp, phase int // phase 0 = setup, 1.. = iteration number
	handle      *testing.T
}

func c20Act(t *testing.T, beh int) {
	switch beh {
	case c20Fail:
		t.Fail()
	case c20FailNow:
		t.FailNow()
	case c20Panic:
		panic(errors.New("component panic"))
	case c20TimedFailNow:
		t.Time("stage", func() { t.FailNow() })
		t.Fail() // not reached: the stage's FailNow unwinds through Time
	case c20TimedPanic:
		t.Time("stage", func() { panic(errors.New("panic in a timed stage")) })
	}
}

// c20Guarded runs fn(t) the way the worker does (deferred CheckResults recovers FailNow and panics).
func c20Guarded(t *testing.T, fn func(*testing.T)) {
	defer testing.CheckResults(t, nil)
	fn(t)
}

// VerifC20_Combined: a combination of n <= 3 components, each with an arbitrary setup behaviour and an arbitrary
// per-iteration behaviour (pass / Fail / FailNow / panic / FailNow or panic raised inside a t.Time stage, chosen symbolically), through the real CombineScenarios
// and the real T (FailNow sentinel, recover, failed flag): setups run once each, in order, on the setup handle,
// up to and including the first that stops the setup; each of two iterations invokes the components' iteration
// functions in the same order with THAT iteration's handle, stopping after the first FailNow/panic in that
// iteration only; the iteration is failed iff an executed component failed or panicked; the next iteration runs
// all components again.
//
//verif:unroll 40
//verif:replace $M/pkg/f1/testing.recordTime c20RecordTime
func VerifC20_Combined() {
	if zz.Native() {
		metrics.Init(false) // T.Time records into the global metrics instance (symbolically: stand-in c20RecordTime)
	}
	maxN := 2
	if zz.Thorough() {
		maxN = 3
	}
	n := zz.Choice("n", maxN) + 1
	var log []c20Event
	iter := 0
	var comps []testing.ScenarioFn
	for i := 0; i < n; i++ {
		i := i
		sb := zz.Int("setupBeh", i)
		zz.Assume(sb >= 0)
		zz.Assume(sb < c20N)
		comps = append(comps, func(t *testing.T) testing.RunFn {
			log = append(log, c20Event{i, 0, t})
			c20Act(t, sb)
			return func(t *testing.T) {
				log = append(log, c20Event{i, iter, t})
				rb := zz.Int("runBeh", iter, i)
				zz.Assume(rb >= 0)
				zz.Assume(rb < c20N)
				c20Act(t, rb)
			}
		})
	}
	for it := 1; it <= 2; it++ {
		for i := 0; i < n; i++ {
			rb := zz.Int("runBeh", it, i)
			zz.Assume(rb >= 0)
			zz.Assume(rb < c20N)
		}
	}
	combined := CombineScenarios(comps...)
	setupT, _ := testing.NewTWithOptions("scn", testing.WithIteration("setup"), testing.WithLogger(slog.Default()))
	var runFn testing.RunFn
	c20Guarded(setupT, func(t *testing.T) { runFn = combined(t) })
	// ---- setup: components 0..j in order, each once, all on the setup handle
	stopAt := n
	setupFailed, setupStopped := false, false
	for i := 0; i < n; i++ {
		sb := zz.Int("setupBeh", i)
		if !setupStopped && sb != c20Pass {
			setupFailed = true
			if c20Stops(sb) {
				stopAt = i + 1
				setupStopped = true
			}
		}
	}
	zz.Cover("C20.setup.done")
	zz.Assert("C20.setup.count", len(log) == stopAt)
	if len(log) != stopAt {
		return
	}
	for i := 0; i < stopAt; i++ {
		zz.Assert("C20.setup.order_once_same_handle", log[i].comp == i && log[i].phase == 0 && log[i].handle == setupT)
	}
	zz.Assert("C20.setup.failed_flag", setupT.Failed() == setupFailed)
	if setupStopped {
		zz.Assert("C20.setup.stopped_setup_has_no_runfn", runFn == nil)
		return
	}
	// ---- iterations
	for it := 1; it <= 2; it++ {
		iter = it
		h, _ := testing.NewTWithOptions("scn", testing.WithLogger(slog.Default()))
		h.Reset("1")
		before := len(log)
		c20Guarded(h, runFn)
		stop := n
		failed, stopped := false, false
		for i := 0; i < n; i++ {
			rb := zz.Int("runBeh", it, i)
			if !stopped && rb != c20Pass {
				failed = true
				if c20Stops(rb) {
					stop = i + 1
					stopped = true
				}
			}
		}
		zz.Assert("C20.iter.count", len(log)-before == stop)
		if len(log)-before != stop {
			return
		}
		for i := 0; i < stop; i++ {
			e := log[before+i]
			zz.Assert("C20.iter.order_with_iteration_handle", e.comp == i && e.phase == it && e.handle == h)
		}
		zz.Assert("C20.iter.failed_iff_executed_component_failed", h.Failed() == failed)
		zz.CoverIf("C20.iter.stopped_early", stop < n)
	}
	zz.Cover("C20.iter.done")
}

// VerifC20_SetUpTwice: the SAME combined scenario value set up more than once (an instance executed twice, the
// value registered under two names, a re-run after a setup that aborted part-way): round 1 has arbitrary setup
// behaviours (it may stop early), round 2 sets up cleanly; in round 2 every setup runs once, in order, and each of
// two iterations invokes every component exactly once, in order, with nothing left over from round 1.
//
//verif:unroll 40
//verif:replace $M/pkg/f1/testing.recordTime c20RecordTime
func VerifC20_SetUpTwice() {
	if zz.Native() {
		metrics.Init(false)
	}
	n := zz.Choice("n", 2) + 1
	var log []c20Event
	round, iter := 1, 0
	var comps []testing.ScenarioFn
	for i := 0; i < n; i++ {
		i := i
		sb := zz.Int("setupBeh", i)
		zz.Assume(sb >= 0)
		zz.Assume(sb < c20N)
		comps = append(comps, func(t *testing.T) testing.RunFn {
			log = append(log, c20Event{i, 0, t})
			if round == 1 {
				c20Act(t, sb)
			}
			r := round
			return func(t *testing.T) {
				log = append(log, c20Event{i + 100*r, iter, t})
			}
		})
	}
	combined := CombineScenarios(comps...)
	s1, _ := testing.NewTWithOptions("scn", testing.WithIteration("setup"), testing.WithLogger(slog.Default()))
	var run1 testing.RunFn
	c20Guarded(s1, func(t *testing.T) { run1 = combined(t) })
	if run1 != nil {
		iter = 1
		h, _ := testing.NewTWithOptions("scn", testing.WithLogger(slog.Default()))
		h.Reset("1")
		c20Guarded(h, run1)
	}
	// ---- round 2 on the same combined value
	round = 2
	before := len(log)
	s2, _ := testing.NewTWithOptions("scn", testing.WithIteration("setup"), testing.WithLogger(slog.Default()))
	var run2 testing.RunFn
	c20Guarded(s2, func(t *testing.T) { run2 = combined(t) })
	zz.Cover("C20.twice.second_setup_done")
	zz.CoverIf("C20.twice.first_setup_aborted", run1 == nil)
	zz.Assert("C20.twice.second_setup_runs_each_component_once", len(log)-before == n && run2 != nil && !s2.Failed())
	if len(log)-before != n || run2 == nil {
		return
	}
	for i := 0; i < n; i++ {
		zz.Assert("C20.twice.second_setup_in_order", log[before+i].comp == i && log[before+i].phase == 0 && log[before+i].handle == s2)
	}
	for it := 1; it <= 2; it++ {
		iter = it
		h, _ := testing.NewTWithOptions("scn", testing.WithLogger(slog.Default()))
		h.Reset("1")
		b := len(log)
		c20Guarded(h, run2)
		zz.Assert("C20.twice.iteration_runs_each_component_exactly_once", len(log)-b == n)
		if len(log)-b != n {
			return
		}
		for i := 0; i < n; i++ {
			e := log[b+i]
			zz.Assert("C20.twice.iteration_runs_this_rounds_components_in_order", e.comp == i+200 && e.phase == it && e.handle == h)
		}
	}
}
