//verif:pkg internal/workers
package workers

import (
	"github.com/form3tech-oss/f1/v2/internal/metrics"
	"github.com/form3tech-oss/f1/v2/internal/progress"
	zz "github.com/form3tech-oss/f1/v2/internal/zzverif"
	"github.com/form3tech-oss/f1/v2/pkg/f1/scenarios"
)

// c04PoolHandles: one pool manager creates several pools one after another, as the staged file trigger does (one
// pool per stage; a rate-mode stage does not wait for its in-flight iterations, so the workers of consecutive pools
// CAN run at the same time). Arbitrary pool kinds and sizes (1..3 workers each): every worker of every pool has its
// own iteration handle - no handle (and no T) is shared inside a pool or between pools of the same manager, and
// every pool has exactly as many handles as workers. (A T is reset, filled with cleanups and torn down by the worker
// that owns it without synchronisation, so a shared T loses or repeats cleanups: C06, and lets one worker use
// another's handle: C04.)
func c04PoolHandles() {
	as := NewActiveScenario(&scenarios.Scenario{Name: "scn"}, &metrics.Metrics{}, &progress.Stats{}, nil, nil)
	m := New(0, as)
	var all []*iterationState
	for p := 0; p < 3; p++ {
		k := zz.Choice("workers", 3, p) + 1
		var hs []*iterationState
		if zz.Bool("continuous", p) {
			hs = m.NewContinuousPool(k).iterationStatePool
		} else {
			hs = m.NewTriggerPool(k).iterationStatePool
		}
		zz.Assert("C04.handles.one_per_worker", len(hs) == k)
		all = append(all, hs...)
	}
	zz.Cover("C04.handles.done")
	for i := 0; i < len(all); i++ {
		zz.Assert("C04.handles.present", all[i] != nil && all[i].t != nil)
		for j := 0; j < i; j++ {
			zz.Assert("C04.handles.never_shared_between_workers_or_pools", all[i] != all[j] && all[i].t != all[j].t)
		}
	}
}

// VerifC04_PoolHandlesDisjoint: see c04PoolHandles.
//
//verif:unroll 12
//verif:noreplay compares heap identities of handles
func VerifC04_PoolHandlesDisjoint() { c04PoolHandles() }

// VerifC06_PoolHandlesDisjoint: the same harness under C06 (cleanups registered on a handle belong to exactly one
// in-flight iteration only if no two workers share the handle).
//
//verif:unroll 12
//verif:noreplay compares heap identities of handles
func VerifC06_PoolHandlesDisjoint() { c04PoolHandles() }

// VerifC03_PoolHandlesDisjoint: the same harness under C03 (the id a worker was granted is the one its iteration
// reports only while no other live worker resets the same T).
//
//verif:unroll 12
//verif:noreplay compares heap identities of handles
func VerifC03_PoolHandlesDisjoint() { c04PoolHandles() }

// VerifC07_PoolHandlesDisjoint: the same harness under C07 (an iteration is reported by its own outcome only while
// no other live worker marks failures on, or resets, the same T).
//
//verif:unroll 12
//verif:noreplay compares heap identities of handles
func VerifC07_PoolHandlesDisjoint() { c04PoolHandles() }
