//verif:pkg internal/workers
package workers

import (
	"errors"

	zz "github.com/form3tech-oss/f1/v2/internal/zzverif"
)

// VerifC03_NextIterationStep: one inductive step of the id dispenser from an ARBITRARY counter value c
// and ARBITRARY limit N (full 64-bit, c < 2^63): the call hands out exactly c+1, grants it iff
// N == 0 or c+1 <= N, refuses with the sentinel otherwise, and touches the shared counter with
// exactly one atomic read-modify-write (so concurrent calls linearise: ids distinct and gapless).
//
//verif:ghostlog 1
//verif:noreplay the count of atomic operations is an engine-side ghost log (natively empty)
func VerifC03_NextIterationStep() {
	c, n := zz.Uint64("c"), zz.Uint64("N")
	zz.Assume(c < 1<<63)
	m := New(n, nil)
	m.iteration.Store(c)
	zz.GhostReset("atomic")
	id, err := m.NextIteration()
	ops := zz.GhostLen("atomic")
	adds := zz.GhostCount("atomic", "Add@")
	granted := n == 0 || c+1 <= n
	zz.Cover("C03.step.reached")
	zz.CoverIf("C03.step.granted", granted)
	zz.CoverIf("C03.step.refused", !granted)
	zz.Assert("C03.step.grant_iff_within_limit", (err == nil) == granted)
	zz.Assert("C03.step.id_is_successor", !granted || id == c+1)
	zz.Assert("C03.step.refusal_is_sentinel", granted || (errors.Is(err, errMaxIterationsReached) && id == 0))
	zz.Assert("C03.step.counter_advanced_once", m.iteration.Load() == c+1)
	zz.Assert("C03.step.single_rmw", ops == 1 && adds == 1)
}

// VerifC03_SequentialIds: k successive calls on one manager (k <= 4, any limit) hand out exactly
// 1..min(k,N) in order and refuse every later call; MaxIterationsReached() is true exactly after a refusal.
func VerifC03_SequentialIds() {
	n := zz.Uint64("N")
	m := New(n, nil)
	refused := false
	granted := uint64(0)
	for i := uint64(1); i <= 4; i++ {
		id, err := m.NextIteration()
		if err != nil {
			refused = true
		} else {
			zz.Assert("C03.seq.no_grant_after_refusal", !refused)
			zz.Assert("C03.seq.id_in_order", id == i)
			granted++
		}
		zz.Assert("C03.seq.reached_flag", m.MaxIterationsReached() == refused)
	}
	zz.Cover("C03.seq.done")
	zz.Assert("C03.seq.count", (n == 0 || n >= 4) == (granted == 4))
	zz.Assert("C03.seq.exactly_N", n == 0 || n >= 4 || granted == n)
}
